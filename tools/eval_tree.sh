#!/bin/bash
# tools/eval_tree.sh <dir>: run every quick check against the source tree in <dir> (HSVERIF_REPO), one line per check
d=$1
for c in C01 C02 C03 C04 C05 C06 C07 C08 C09 C10 C11 C12 C13 C14 C15 C16 C17 C18 C19 C20; do
  s=$(date +%s)
  out=$(HSVERIF_REPO=$d ./check $c --tier quick 2>&1); rc=$?
  echo "tree=$d check=$c rc=$rc $(( $(date +%s) - s ))s viol=$(echo "$out" | grep -c '^VIOLATION') known=$(echo "$out" | grep -c '^KNOWN-FINDING') :: $(echo "$out" | grep -m1 'what:\|HARNESS' | cut -c1-260)"
done
