#!/bin/bash
# Re-run, for every seeded change, the first check named in its meta.json "caught_by" against a scratch worktree
# built from seeded/<id>/patch.diff (removed again afterwards).  Usage: tools/regress_seeded.sh [id ...]
# Output: one line per change; rc=1 with VIOLATION lines is the expected result.
cd "$(dirname "$0")/.."; V=$(pwd)
ids="$@"; [ -z "$ids" ] && ids=$(ls seeded)
base=${HSVERIF_REGRESS_DIR:-/var/tmp}
for n in $ids; do
  d=seeded/$n
  chk=$(/venv/bin/python -c "import json,re;m=json.load(open('$d/meta.json'));c=re.findall(r'C\d\d',m['caught_by']);print(c[0] if c else '')")
  [ -z "$chk" ] && { echo "$n: no check claimed (documented non-detection)"; continue; }
  wt=$base/hsreg_$n
  git -C /repo worktree add --detach -q $wt >/dev/null 2>&1 || { echo "$n: cannot create worktree"; continue; }
  if git -C $wt apply $V/$d/patch.diff 2>/dev/null; then
    out=$(HSVERIF_REPO=$wt ./check $chk --tier quick 2>&1); rc=$?
    echo "$n check=$chk rc=$rc viol=$(echo "$out" | grep -c '^VIOLATION')"
  else
    echo "$n: patch does not apply"
  fi
  git -C /repo worktree remove --force $wt
done
