#!/bin/bash
# re-run, for every seeded change, the first check named in its meta.json "caught_by" against the scratch worktree
cd /verif
for d in seeded/*; do
  n=$(basename $d)
  chk=$(/venv/bin/python -c "import json,re;m=json.load(open('$d/meta.json'));c=re.findall(r'C\d\d',m['caught_by']);print(c[0] if c else '')")
  [ -z "$chk" ] && { echo "$n: no check claimed (documented non-detection)"; continue; }
  case $n in *-2) wt=/tmp/wt2_${n%-2};; *-3) wt=/tmp/wt3_${n%-3};; *-4) wt=/tmp/wt4_${n%-4};; *-5) wt=/tmp/wt5_${n%-5};; *) wt=/tmp/wt_$n;; esac
  [ -d $wt ] || { echo "$n: worktree missing"; continue; }
  out=$(HSVERIF_REPO=$wt ./check $chk --tier quick 2>&1); rc=$?
  echo "$n check=$chk rc=$rc viol=$(echo "$out" | grep -c '^VIOLATION')"
done
