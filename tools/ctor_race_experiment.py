import sys, os, time, shutil
sys.path.insert(0,'/verif')
from hsverif import common, env, engine_t, tscen
common.scratch(); env.install()
import yaml
NS="https://ns.dataone.org/service/types/v2.0#SystemMetadata"
def props(path,cfg):
    d,w,a,ns=cfg
    return {"store_path":path,"store_depth":d,"store_width":w,"store_algorithm":a,"store_metadata_namespace":ns}
def observe(new, outs, cfgs):
    from hashstore.filehashstore import FileHashStore
    y=os.path.join(new,"hashstore.yaml")
    try:
        with env.real_open(y) as f: t=yaml.safe_load(f.read())
        ycfg=tuple(t.get(k) for k in ("store_depth","store_width","store_algorithm","store_metadata_namespace")) if isinstance(t,dict) else "not a mapping"
    except FileNotFoundError: ycfg=None
    except Exception as e: ycfg="unreadable:"+type(e).__name__
    re=[]
    for c in cfgs:
        try: FileHashStore(props(new,c)); re.append("accepted")
        except Exception as e: re.append("refused")
    return (tuple(outs), ycfg, tuple(re))
def seq(cfg1,cfg2,swap):
    from hashstore.filehashstore import FileHashStore
    d=os.path.join(common.scratch(),"c14-seq"); shutil.rmtree(d,ignore_errors=True); os.makedirs(d)
    new=os.path.join(d,"new"); outs=[None,None]
    order=[(0,cfg1),(1,cfg2)] if not swap else [(1,cfg2),(0,cfg1)]
    for i,c in order:
        try: FileHashStore(props(new,c)); outs[i]="ok"
        except Exception as e: outs[i]=type(e).__name__
    return observe(new,outs,(cfg1,cfg2))
def explore(cfgA,cfgB,bound=None):
    root=os.path.join(common.scratch(),"c14-ctor")
    tree=tscen.init_tree("empty")
    class Sc(engine_t.Scenario):
        def make_threads(self):
            self.outs=[None,None]
            def ctor(i,cfg):
                def run(store):
                    from hashstore.filehashstore import FileHashStore
                    FileHashStore(props(os.path.join(str(store.root),"new"),cfg)); return "opened"
                return run
            return {"T1":[ctor(0,cfgA)],"T2":[ctor(1,cfgB)]}
        def terminal(self,ex,root):
            if ex.deadlock is not None: return ("DEADLOCK",)
            outs=[ex.results[n][0][0] for n in ("T1","T2")]
            return observe(os.path.join(root,"new"),outs,(cfgA,cfgB))
    sc=Sc("ctor",tree,{"T1":[],"T2":[]},tscen.P,tscen.ctx())
    t=time.time()
    r=engine_t.explore(sc,root,bound=bound,time_cap=300)
    return r,time.time()-t
A=(3,2,"SHA-256",NS); B=(2,3,"MD5",NS)
for (x,y) in ((A,A),(A,B)):
    allowed={seq(x,y,False),seq(x,y,True)}
    r,dt=explore(x,y,bound=2)
    print("cfg same" if x==y else "cfg differ", r["executions"], r["states"], len(r["terminals"]), r["capped"], round(dt,1))
    for t,s in r["terminals"].items():
        print("   ", "ALLOWED " if t in allowed else "VIOLATION", t)
