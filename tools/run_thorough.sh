#!/bin/bash
# thorough tier of the given checks (default: all), sequentially, from the directory this script lives in;
# logs in ${HSV_LOG_DIR:-/var/tmp/hsv}/thorough_<id>.log
cd "$(dirname "$0")/.."
L=${HSV_LOG_DIR:-/var/tmp/hsv}; mkdir -p $L
[ $# -eq 0 ] && set -- C01 C02 C03 C04 C05 C06 C09 C10 C11 C13 C14 C15 C17 C18 C19 C20 C08 C12 C07 C16
for c in "$@"; do
  s=$(date +%s)
  ./check $c --tier thorough > $L/thorough_$c.log 2>&1; rc=$?
  echo "$c rc=$rc $(( $(date +%s) - s ))s viol=$(grep -c '^VIOLATION' $L/thorough_$c.log) known=$(grep -c '^KNOWN' $L/thorough_$c.log)"
done
