#!/bin/bash
# thorough tier of every check, sequentially; logs in /tmp/thorough_<id>.log
cd /verif
for c in "$@"; do
  s=$(date +%s)
  ./check $c --tier thorough > /tmp/thorough_$c.log 2>&1; rc=$?
  echo "$c rc=$rc $(( $(date +%s) - s ))s viol=$(grep -c '^VIOLATION' /tmp/thorough_$c.log) known=$(grep -c '^KNOWN' /tmp/thorough_$c.log)"
done
