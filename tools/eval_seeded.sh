#!/bin/bash
# tools/eval_seeded.sh <seeded-id> <check> [<check> ...]: run checks (quick tier, or $TIER) against a scratch worktree
# built from seeded/<id>/patch.diff; the worktree is removed afterwards.
id=$1; shift
cd "$(dirname "$0")/.."; V=$(pwd)
wt=${HSVERIF_REGRESS_DIR:-/var/tmp}/hsev_$id.$$
git -C /repo worktree add --detach -q $wt >/dev/null 2>&1 || { echo "cannot create worktree"; exit 2; }
git -C $wt apply $V/seeded/$id/patch.diff || { echo "patch does not apply"; git -C /repo worktree remove --force $wt; exit 2; }
for c in "$@"; do
  s=$(date +%s)
  out=$(HSVERIF_REPO=$wt ./check $c --tier ${TIER:-quick} 2>&1); rc=$?
  echo "seeded=$id check=$c rc=$rc $(( $(date +%s) - s ))s viol=$(echo "$out" | grep -c '^VIOLATION') :: $(echo "$out" | grep -m1 'what:\|HARNESS' | cut -c1-220)"
  [ -n "$VERBOSE" ] && echo "$out" | tail -${VERBOSE}
done
git -C /repo worktree remove --force $wt
