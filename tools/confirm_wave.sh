#!/bin/bash
# tools/confirm_wave.sh <wave> <nn>: confirm a sub-agent's change in its scratch worktree /var/tmp/hsv/w<wave>_<nn>
# (suite passes with it; DEMO.py exits 1 with it and 0 without) and keep it as seeded/<nn>-<wave>/
w=$1; n=$2; base=${HSV_BASE:-/var/tmp/hsv}; wt=$base/w${w}_$n; name=$n-$w; out=$base/confirm_$name
cd $wt || exit 1
git diff -- src > $out.patch
[ -s $out.patch ] || { echo "no diff"; exit 1; }
suite=$(PYTHONPATH=$wt/src /venv/bin/python -m pytest -q -p no:cacheprovider --timeout=900 2>&1 | tail -1)
PYTHONPATH=$wt/src timeout 600 /venv/bin/python DEMO.py > $out.changed.log 2>&1; rc1=$?
git checkout -q -- src
PYTHONPATH=$wt/src timeout 600 /venv/bin/python DEMO.py > $out.orig.log 2>&1; rc0=$?
git apply $out.patch
mkdir -p /verif/seeded/$name
cp $out.patch /verif/seeded/$name/patch.diff; cp DEMO.py /verif/seeded/$name/DEMO.py; cp NOTES.md /verif/seeded/$name/NOTES.md 2>/dev/null
echo "confirmed $name: suite=[$suite] demo_changed_rc=$rc1 demo_orig_rc=$rc0 files=$(git status --short | tr '\n' ' ')"
