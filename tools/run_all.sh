#!/bin/bash
# run every check (tier $1, default quick); print one line per check
tier=${1:-quick}
cd /verif
for c in C01 C02 C03 C04 C05 C06 C07 C08 C09 C10 C11 C12 C13 C14 C15 C16 C17 C18 C19 C20; do
  s=$(date +%s)
  out=$(./check $c --tier $tier 2>&1); rc=$?
  echo "$c rc=$rc $(( $(date +%s) - s ))s $(echo "$out" | grep -c '^VIOLATION') violations $(echo "$out" | grep -c '^KNOWN-FINDING') known"
done
