#!/bin/bash
# tools/confirm_mutant.sh <Cxx> [worktree-prefix]: confirm a sub-agent's change in its scratch worktree
# (/tmp/<prefix>_<Cxx>, default prefix wt) and store it under seeded/<Cxx>[-2]/
id=$1; pre=${2:-wt}; wt=/tmp/${pre}_$id; name=$id
if [ "$pre" != "wt" ]; then name="${id}-${pre:2}"; fi
cd $wt || exit 1
git diff > /tmp/$name.patch
[ -s /tmp/$name.patch ] || { echo "no diff"; exit 1; }
echo "== suite with the change"; PYTHONPATH=$wt/src /venv/bin/python -m pytest -q -p no:cacheprovider -q 2>&1 | tail -1
echo "== demo with the change"; PYTHONPATH=$wt/src timeout 300 /venv/bin/python DEMO.py > /tmp/$name.demo_changed.log 2>&1; rc1=$?; echo rc=$rc1; tail -2 /tmp/$name.demo_changed.log
git checkout -q -- src
echo "== demo on the original"; PYTHONPATH=$wt/src timeout 300 /venv/bin/python DEMO.py > /tmp/$name.demo_orig.log 2>&1; rc0=$?; echo rc=$rc0; tail -1 /tmp/$name.demo_orig.log
git apply /tmp/$name.patch
mkdir -p /verif/seeded/$name
cp /tmp/$name.patch /verif/seeded/$name/patch.diff; cp DEMO.py /verif/seeded/$name/DEMO.py; cp NOTES.md /verif/seeded/$name/NOTES.md 2>/dev/null
echo "confirmed $name: suite=$(PYTHONPATH=$wt/src /venv/bin/python -m pytest -q -p no:cacheprovider -q 2>&1 | tail -1 | tr -d '\n' | tail -c 40) demo_changed_rc=$rc1 demo_orig_rc=$rc0"
