#!/venv/bin/python
"""Authoring-time helper (never run by a check): read the replay files a check run has written
under replays/<prop>/ and add their signatures as instances of a known finding, using the
classifier below.  Signatures that no classifier claims are printed and NOT recorded."""
import glob
import json
import os
import sys

V = os.path.dirname(os.path.dirname(os.path.abspath(__file__)))


def classify(prop, sig):
    if prop in ("C07", "C16", "C08"):
        outs = [o for v in sig.get("outcomes", {}).values() for o in v]
        api = [x[-1] for x in sig.get("api", [])]
        import re
        if "StoreObjectForPidAlreadyInProgress" in outs and re.search(r"(^|[|;])d\d", sig.get("scenario", "")) and \
                sig.get("locked") == [[], []] and not sig.get("residue"):
            return prop + "-R3"
        allowed = ("ok", "mismatch", "PidRefsDoesNotExist") + (("FileNotFoundError",) if "xA" in sig.get("scenario", "") else ())
        if "RefsFileExistsButCidObjMissing" in api and all(o in allowed for o in outs) \
                and sig.get("locked") == [[], []] and not sig.get("residue") and sig.get("kind") == "state":
            return prop + "-R1"
    if prop == "C09":
        # C09-F1: a ONE-OFF error at the rename of a temp file onto a permanent address, then an incomplete permanent file
        if sig.get("part") == "crash-after-fault" and sig.get("mode") == "one-off" and \
                sig.get("fault_at", "").rsplit("#", 1)[0] in ("rename:rename:objects/tmp:objects", "rename:rename:refs/tmp:refs/pids",
                                                               "rename:rename:metadata/tmp:metadata") and \
                ("holds 0 bytes" in sig.get("what", "") or "holds b''" in sig.get("what", "")):
            return "C09-F1"
    if prop == "C12":
        if sig.get("kind") == "step" and "one-off EIO at T1's rename:rename:metadata/tmp:metadata#0" in sig.get("scenario", "") and \
                "metadata document holds 0 bytes" in sig.get("what", ""):
            return "C12-F1"
    if prop == "C10":
        cb, what = sig.get("crash_before", ""), sig.get("what", "")
        if cb.startswith("after a one-off EIO at rename:rename:") and any(cb.startswith("after a one-off EIO at " + x) for x in (
                "rename:rename:objects/tmp:objects#0", "rename:rename:refs/tmp:refs/pids#0", "rename:rename:metadata/tmp:metadata#0")) and (
                "holds 0 bytes" in what or "holds b''" in what or
                what in ("recovery: pid not retrievable with the right bytes after re-storing",
                         "metadata document served with bytes that are not a supplied version") or
                (what.startswith("recovery (") and "pid not retrievable with the right bytes after re-storing" in what)):
            return "C10-F1"
        if cb.startswith("after a one-off EIO at write:write:refs/cids#0") and \
                what == "a shared reference list gained a line for the interrupted pid without its pid reference":
            return "C10-F2"
    if prop == "C13" and sig.get("site", "").startswith("probe:stat:") and sig.get("mode") == "one-off" and sig.get("errno") == "EIO":
        if sig.get("what") in ("another pid's object or metadata changed", "another pid's references changed",
                               "call reported success although its effect was not (wholly) achieved",
                               "after the failed call the pid's earlier binding is not intact"):
            return "C13-P3"
    if prop == "C13":
        site = sig.get("site", "")
        refs_site = ":refs/cids" in site or ":refs/pids" in site
        if sig.get("mode") == "persistent" and refs_site and (sig.get("case", "").startswith("store") or
                                                              sig.get("case", "").startswith("tag")) and \
                sig.get("what") in ("after the failed call a pid reference file for the pid remains",
                                    "after the failed call the pid is neither unbound nor bound as before",
                                    "the pid cannot be stored again at once after the failed call"):
            return "C13-P1" if ":refs/cids" in site else "C13-P2"
    return None


def main():
    prop = sys.argv[1]
    p = os.path.join(V, "known_findings.json")
    d = json.load(open(p))
    by = {f["id"]: f for f in d["known"]}
    n = 0
    for f in sorted(glob.glob(os.path.join(V, "replays", prop, "*.json"))):
        sig = json.load(open(f))["signature"]
        fid = classify(prop, sig)
        if fid is None or fid not in by:
            print("UNCLASSIFIED", json.dumps(sig)[:300])
            continue
        if prop == "C13":
            # identified by case, operation class of the fault site, mode and symptom (not by errno / occurrence)
            sig = {k: sig[k] for k in ("case", "site", "mode", "what")}
        if sig not in by[fid].setdefault("instances", []):
            by[fid]["instances"].append(sig)
            n += 1
    for f in d["known"]:
        if "instances" in f:
            f["instances"].sort(key=lambda s: json.dumps(s, sort_keys=True))
    json.dump(d, open(p, "w"), indent=1, sort_keys=True)
    open(p, "a").write("\n")
    print("added", n, "instances")


main()
