#!/venv/bin/python
"""Regenerates /verif/MANIFEST.json from the table below and validates it against the schema."""
import json
import os
import subprocess
import sys

V = os.path.dirname(os.path.dirname(os.path.abspath(__file__)))

CHECKS = {
    # id: (engine, category, text, note, technique, design_ref)
    "C05": ("S", "model_checking",
            "Explicit-state BFS over all call sequences of a 32-operation alphabet (3 prefix-related pids, 2 contents, "
            "3 cids, all nine public methods) run to closure on the real FileHashStore; every transition is checked "
            "against a reference model and an independent abstraction of the directory tree.",
            "Trusted: the reference model (written from the property text), the independent layout implementation, "
            "tmpfs semantics. Bounded by the alphabet; closure means every history of any length over it.",
            "explicit-state model checking of the implementation (BFS to fixpoint, reference-model oracle)", "4/C05"),
}

NOT_YET = {}


def main():
    props = [json.loads(l)["id"] for l in open(os.path.join(V, "properties.jsonl"))]
    checks = []
    for pid in props:
        if pid not in CHECKS:
            continue
        eng, cat, text, note, tech, ref = CHECKS[pid]
        checks.append({
            "property_id": pid,
            "quick_cmd": "./check %s --tier quick" % pid,
            "thorough_cmd": "./check %s --tier thorough" % pid,
            "evidence_file": "/verif/evidence/%s.json" % pid,
            "replay_cmd_template": "./check replay {path}",
            "engine": eng,
            "level_claimed": {"category": cat, "text": text, "design_ref": "DESIGN.md section " + ref},
            "level_note": note,
            "technique": tech,
        })
    na = [{"property_id": p, "reason": NOT_YET.get(p, "check not built yet in this round; planned in DESIGN.md section 4")}
          for p in props if p not in CHECKS]
    hooks_commits = []
    m = {
        "version": 1,
        "setup_cmd": "./check selftest",
        "hooks": {
            "guard": "HASHSTORE_VERIF",
            "enable": "no source hooks: the checks own the environment from outside the package by replacing module "
                      "attributes (os.*, builtins.open, fcntl.flock, tempfile names, the package's threading / "
                      "multiprocessing references) inside the checking process only",
            "baseline_off_cmd": "cd /repo && /venv/bin/python -m pytest -ra -q -p no:cacheprovider --timeout=900 "
                                "--continue-on-collection-errors",
            "source_commits": hooks_commits,
            "add_only": True,
        },
        "engines": [
            {"name": "S", "path": "hsverif/engine_s.py",
             "serves_properties": ["C01", "C02", "C03", "C04", "C05", "C11", "C16", "C19"],
             "kind_free_text": "sequential explicit-state explorer of the real FileHashStore (BFS over call sequences, "
                               "de-duplicated on the concrete directory tree, reference-model oracle)"},
        ],
        "checks": checks,
        "not_applicable": na,
        "notes": "All checks run the code in /repo/src (editable install) in-process; nothing is built.",
    }
    with open(os.path.join(V, "MANIFEST.json"), "w") as f:
        json.dump(m, f, indent=1)
        f.write("\n")
    r = subprocess.run(["python3-vt", "-c", "import json,jsonschema,sys;"
                        "jsonschema.validate(json.load(open('%s/MANIFEST.json')),json.load(open('/root/.vp/MANIFEST.schema.json')));"
                        "print('MANIFEST valid')" % V])
    sys.exit(r.returncode)


main()
