#!/venv/bin/python
"""Regenerates /verif/MANIFEST.json from the table below and validates it against the schema."""
import json
import os
import subprocess
import sys

V = os.path.dirname(os.path.dirname(os.path.abspath(__file__)))

CHECKS = {
    # id: (engine, category, text, note, technique, design_ref)
    "C05": ("S", "model_checking",
            "Explicit-state BFS over all call sequences of a 32-operation alphabet (3 prefix-related pids, 2 contents, "
            "3 cids, all nine public methods) run to closure on the real FileHashStore; every transition is checked "
            "against a reference model and an independent abstraction of the directory tree. List-order closure: five pids related as "
            "tails / heads of one another tagged to and deleted from one cid in every order (652 states, every ordered subset as list "
            "content). Alignment sweep: reference lists whose "
            "line ends fall on EVERY character offset 1..10240 (filler pid of every length 1..1024 followed by 1024-character "
            "lines; thorough: also with two-byte characters), audited after every one of 24 calls per list. Boundary windows: a "
            "target pid of 1- to 4-byte characters whose line starts / ends at every byte offset B-8..B+8 for block sizes B = 4 KiB .. "
            "128 KiB (thorough: 1 MiB), stored there directly and moved there by a delete.",
            "Trusted: the reference model (written from the property text), the independent layout implementation, "
            "tmpfs semantics. Bounded by the alphabet; closure means every history of any length over it.",
            "explicit-state model checking of the implementation (BFS to fixpoint, reference-model oracle)", "4/C05"),
}

S_NOTE = ("Trusted: the reference model (written from the property text), the independent layout implementation, "
          "tmpfs semantics. Bounded by the stated alphabet; closure means every history of any length over it.")
CHECKS.update({
    "C01": ("E+S", "model_checking",
            "Complete product sizes (0, 1, around every multiple of both read-buffer sizes, multi-buffer) x 12 kinds of data "
            "argument (str, Path, file stream at 4 offsets, fd-backed stream, BytesIO / BufferedReader(BytesIO) at several "
            "offsets; streams with pending writes, gzip streams, failing streams, streams answering with SHORT READS) x store "
            "algorithms, plus explicit-state BFS to closure in which witness pids must keep retrieving "
            "their exact bytes after every history of calls on other pids (the other pids include suffix / prefix relatives "
            "of the witnesses). Environment answers: every raw write(2) of a store, in turn, is a SHORT write - a store "
            "that reports success must still retrieve the exact bytes, size and digests. Sizes include the thresholds of a "
            "'large object' path (64 KiB, 1 MiB); content shapes with runs of equal bytes (zero head / tail / alternating) at "
            "block multiples."
            " Line-level part (engine L): two overlapping calls on one instance with ONE pre-emption placed at every source line of the package (thorough tier: every bytecode); each call's result must be what a sequential run gives.",
            S_NOTE + " Byte values follow a position-dependent pattern; digest correctness for arbitrary bytes is hashlib's.",
            "bounded-exhaustive input enumeration + explicit-state model checking of the implementation", "4/C01"),
    "C02": ("E+S", "model_checking",
            "All 13x13 (additional, checksum) algorithm combinations x spellings x contents, every spelling for "
            "get_hex_digest, and BFS over histories of store_object calls with differing algorithm arguments on ONE "
            "instance (instance attributes carried along; get_hex_digest and rejected re-stores in the alphabet), checking "
            "the key set and every digest of every call (hidden in-memory state that cannot be pickled is fingerprinted and "
            "re-created by replaying the history); digests after short writes and for an object altered on disk; every raw "
            "read of get_hex_digest failing once with EIO / ESTALE / EAGAIN (a returned value must be the true digest)."
            " Line-level part (engine L): two overlapping calls on one instance with ONE pre-emption placed at every source line of the package (thorough tier: every bytecode); each call's result must be what a sequential run gives.",
            S_NOTE, "bounded-exhaustive input enumeration + explicit-state model checking (one-instance histories)", "4/C02"),
    "C03": ("S", "model_checking",
            "BFS to closure over store/tag/delete/delete_if_invalid (and metadata calls) on pids p/q/r, contents A/B, cids cA/cB/never-stored; "
            "every transition checked against the reference model; rejected re-binding must leave all reference files "
            "byte-identical; every pid probed through retrieve_object after every call.", S_NOTE,
            "explicit-state model checking of the implementation (BFS to fixpoint, reference-model oracle)", "4/C03"),
    "C04": ("S", "model_checking",
            "BFS to closure over an alphabet in which three pids share one content: tagging, deleting, "
            "delete_if_invalid_object with wrong size / checksum / both, rejected stores, metadata calls; after every "
            "transition every bound pid is retrieved and compared byte for byte and the object file must be present "
            "exactly while referenced. Engine T part: a step observer ('no step removes an object file while some pid is "
            "completely bound to it') on every step of every interleaving of a remover with a tagger / storer, explored "
            "without partial-order reduction.", S_NOTE,
            "explicit-state model checking of the implementation (BFS to fixpoint, reference-model oracle)", "4/C04"),
    "C06": ("E", "exploration",
            "Complete product contents x 12 algorithms x spellings x checksum kinds x size kinds x prior state of the "
            "content x entry point (store_object alone, with an additional algorithm equal to the checksum algorithm / another non-default "
            "one / a default one / the store's own, stepwise with delete_if_invalid_object, gzip stream); oracle computed with hashlib: valid iff size equal and checksum equal as "
            "case-insensitive hex.", "Trusted: hashlib, the independent layout implementation. Finite product as stated in the evidence rule.",
            "bounded-exhaustive enumeration of an input/state product against an independent oracle", "4/C06"),
    "C07": ("T", "model_checking",
            "Every interleaving (file-system-call, raw read/write and lock-operation granularity) of pairs of calls from a "
            "10-call menu from four starting states, explored on the real code under a controlled scheduler with exact "
            "state caching; each terminal observation must equal that of a sequential order of the same calls run on the "
            "real code; the observation includes a follow-up sequence (delete every pid) on the same instance and the state it "
            "leaves. Engine L: the same pairs plus pairs that are independent at file level, ONE pre-emption at every source "
            "line of the package (thorough: every bytecode for a selection). Thorough: all 55 pairs x 4 states, "
            "pristine-directory variants, two-call programs and triples with pre-emption bound 2. Three calls on ONE pid (every "
            "multiset of store / store-other-content / tag / delete with a delete and a store or tag, from a bound pid; thorough: "
            "all 20 multisets x 4 states), pre-emption bound 2. Thorough: for three scenarios every execution with at most TWO "
            "pre-emptions at source-line granularity (engine L, second pre-emption at every event where the other thread can run).",
            "Trusted: the cooperative lock/condition/flock shims (validated by the self-test against the real primitives), "
            "the interposition layer, GIL atomicity between scheduling points. Known findings C07-R1, C07-R3 are listed "
            "by exact observation; anything else is a VIOLATION.",
            "stateless model checking of the implementation under a controlled scheduler (DFS with state caching, "
            "persistent-set reduction, linearizability oracle from sequential runs of the real code)", "4/C07"),
    "C11": ("S", "model_checking",
            "BFS to closure over store/retrieve/delete_metadata, delete_object and store_object on pids 'ab'/'a' with formats "
            "omitted / explicit default / 'c' / 'bc' and two document versions (one multi-buffer), checked against a "
            "dictionary model; plus a size x argument-kind round-trip product, same-length updates within one timestamp tick, and "
            "all ordered pairs of a 39-element format alphabet on one pid.", S_NOTE,
            "explicit-state model checking of the implementation (BFS to fixpoint, reference-model oracle)", "4/C11"),
    "C19": ("S", "model_checking",
            "For every state in the closure of a reduced alphabet (pids p/q, contents A/B) x target pid x content "
            "(A, B, new C) x 11 validation kinds, the one-call and the stepwise procedure are run on two copies of the "
            "state and their results and abstract post-states compared.", S_NOTE,
            "explicit-state model checking (state closure) with a differential oracle between two procedures", "4/C19"),
})

T_NOTE = ("Trusted: the cooperative lock/condition/flock shims (validated by the self-test against the real primitives), "
          "the interposition layer (its layered open() is compared with the builtin in the self-test), GIL atomicity "
          "between scheduling points.")
CHECKS.update({
    "C08": ("T+F", "model_checking",
            "Engine T: lock-heavy scenarios (same pid / cid / document, two waiters on one condition so the notify() wake-up "
            "choice is explored), every interleaving: no state without an enabled thread, all locked lists empty at the "
            "end, eight follow-up calls on the identifiers complete; four-call scenarios with two identifiers per condition "
            "family (pre-emption bound 2); a READ-ONLY call (retrieve_object, get_hex_digest, retrieve_metadata) between two "
            "writers of the same identifier (quick: 8 triples, thorough: the product of writers x readers x writers per family); one "
            "injected I/O error in one of two overlapping calls - every fault-site class x every interleaving, including a "
            "delete-all over two documents as the failing call. "
            "Engine F: an I/O error at every fault site of every "
            "call of the C13 table, then lists empty and follow-up calls on the same instance complete.",
            T_NOTE + " Triples are pre-emption bounded (2).",
            "stateless model checking under a controlled scheduler (deadlock = no enabled thread) + exhaustive "
            "single-fault enumeration", "4/C08"),
    "C09": ("T+F", "model_checking",
            "The observer invariant I9 (object file hashes to its name, metadata document is a complete supplied version, "
            "pid reference is one complete cid) is evaluated on the kernel-visible tree after EVERY scheduling step of every "
            "interleaving of a writer with a concurrent reader (contents of 0, 1, one buffer, three buffers + 7 bytes) and "
            "on the crash image before every file-system operation of 13 calls, after every possible short write(2), and on every "
            "image that follows each fault site of those calls (one-off and persistent EIO). Known finding C09-F1 (shutil.move "
            "copies onto the permanent address when its rename fails once) is listed by exact instance.",
            T_NOTE + " Process death = completed system calls are durable, user-space buffers are not.",
            "stateless model checking with a per-step observer + exhaustive crash-point enumeration", "4/C09"),
    "C10": ("F", "model_checking",
            "For 39 (call, starting state) cases the kernel-visible tree before every file-system operation and after the "
            "last is captured; every distinct crash image is re-opened by a fresh FileHashStore: bystanders' bytes, "
            "references and metadata must be as before, the interrupted pid is served exact bytes or a not-found / "
            "inconsistency class, delete_object then store_object must succeed (also after the other pids were deleted first, and with "
            "other content), the pid's metadata can be deleted, stored and read back in both orders, I9 must hold. The images that FOLLOW every "
            "fault site of each call (one-off and persistent EIO) are crash images too; four cases run on a depth-1/width-1 "
            "store whose bystander shares the shard directory; images while two calls are in flight come from engine T. "
            "Known findings C10-F1 / C10-F2 are listed by exact instance.",
            "Trusted: the interposition layer's view of completed system calls. Power loss / page-cache loss not modelled.",
            "exhaustive crash-point enumeration on the implementation (every prefix of the call's system-call trace)", "4/C10"),
    "C12": ("T", "model_checking",
            "Every interleaving of pairs drawn from store(v1), store(v2), retrieve, delete(format), delete(all), "
            "delete_object on one pid and one or two formats, document absent / present; linearizability oracle from "
            "sequential runs of the real code (including a follow-up delete-all on the same instance and the state it leaves); "
            "I9 on every step; engine L: every pair again with ONE pre-emption at every source line of the package. "
            "Directory listings are answered in sorted and, for every scenario in which a delete-all walks two or three documents, "
            "in reverse order. Thorough adds triples (pre-emption bound 2), bytecode granularity and, for three scenarios, every "
            "execution with at most TWO pre-emptions at source-line granularity.",
            T_NOTE, "stateless model checking under a controlled scheduler with a linearizability oracle", "4/C12"),
    "C13": ("F", "fault_enumeration",
            "Every stat of every call also fails once with EIO (existence probes); known findings C13-P1 / P2 / P3 by exact instance. "
            "For 32 (call, starting state) cases (two with directory listings reversed, two from a pid whose object is missing): an OSError (EIO, ENOSPC, EACCES) at "
            "every create / open / rename / remove / mkdir / write / chmod / flock / close-of-a-written-file / directory-listing "
            "operation of the recorded trace, one-off and persistent for that path; the retry after a failed store / tag runs on "
            "a fresh instance AND on the instance that saw the failure; oracle "
            "from the statement (success only with the whole effect, failed store/tag leaves the pid unbound and storable "
            "again at once, failed store_metadata keeps the previous version, bystanders untouched).",
            "Trusted: the interposition layer; one fault per call. Known findings C13-P1 / C13-P2 (persistent faults on "
            "reference files defeat the roll-back) are listed by exact (case, site, errno, mode, symptom).",
            "exhaustive single-fault enumeration over the call's recorded system-call trace", "4/C13"),
    "C16": ("S+T", "model_checking",
            "Engine S: every transition of the C05 and C11 closures is executed in both synchronisation modes and must give "
            "the same outcome and the same tree (and satisfy the model). Engine T: C07 / C12 / C08 scenarios through the "
            "_mp code paths with one instance copy per 'process' and shared _mp primitives (unsynchronised accesses to the "
            "shared lists are scheduling points; Manager().list() is modelled as a PROXY with the exposed methods of ListProxy only - "
            "no __iter__, every round trip atomic on its own - and compared with the real proxy in the self-test), same oracles. "
            "Single I/O faults are injected in both modes and must give "
            "the same outcome and state. Two sampled conformance runs with REAL forked processes (workers forked up front; workers "
            "replaced after every task, i.e. forked while others hold identifiers) must terminate with nothing locked and no internal error.",
            T_NOTE + " Real forked processes and the real multiprocessing primitives are exercised only by the sampled "
            "conformance self-test. Mode at initialisation: several stores initialised in one interpreter with alternating "
            "settings (same and different directories) must each synchronise through the primitives of their own setting. "
            "Known findings C16-R1 / C16-R3 mirror C07's.",
            "explicit-state differential model checking + stateless model checking of the multiprocessing code paths on "
            "cooperative shims", "4/C16"),
})

E_NOTE = "Trusted: hashlib, the independent layout implementation (hsverif/absx.py). The product is finite and stated in the evidence rule."
CHECKS.update({
    "C14": ("E", "exploration",
            "200 creation configurations x every reopening configuration differing in at most 2 coordinates (thorough: all "
            "200 x 200) x int/str encodings x empty/populated, plus unsupported and re-spelled algorithm names, missing / None "
            "/ extra keys, non-integers and store data without hashstore.yaml; accepted iff all four values equal; the "
            "snapshot of the store's parent directory must not change. Namespaces: all ordered pairs (creation, reopening) of a "
            "48-string alphabet of values a YAML parser reads as something else or a YAML writer must quote.", E_NOTE,
            "bounded-exhaustive enumeration of configuration pairs against an independent oracle", "4/C14"),
    "C15": ("E", "exploration",
            "120 stores (depth 1-6 x width 1-4 x 5 algorithms); after a fixed script the ENTIRE tree (paths and bytes) is "
            "compared with the tree predicted by an independent implementation of the README layout (identifiers include path-like, "
            "very long non-ASCII and non-NFC strings); hashstore.yaml is "
            "parsed and must carry the documented keys.", E_NOTE,
            "bounded-exhaustive enumeration of configurations with an independent layout oracle", "4/C15"),
    "C17": ("E", "exploration",
            "Grammar of invalid values for every parameter of the nine public methods, one at a time and in pairs, from an "
            "empty and a populated store: documented error class, byte-identical snapshot, no identifier left locked; "
            "successful read-only calls leave the snapshot identical.", E_NOTE,
            "bounded-exhaustive enumeration of an invalid-argument grammar (singles and pairs)", "4/C17"),
    "C18": ("E", "exploration",
            "All ordered pairs of a 43-element adversarial identifier alphabet through a 12-step script sharing one object, "
            "bystander checked after every step; every mutating file-system operation is recorded by the interposition "
            "layer and must lie inside the root at a path made of hash tokens only. Formats: all ordered pairs of a 39-element "
            "format alphabet (near misses of the default namespace, case variants, NFC / NFD / compatibility spellings, path-like, "
            "3000-character strings) on one pid - documents never stand in for, overwrite or delete one another. Triples: all "
            "ordered triples of a 14-element core of related identifiers (prefix / suffix chains, case, NFC / NFD, path- and marker-like), "
            "two store orders each, a three-entry model checked after each of 10 steps.", E_NOTE,
            "bounded-exhaustive enumeration of identifier pairs with a recorded-path containment oracle", "4/C18"),
    "C20": ("E", "exploration",
            "Every client verb x option subset x value kind executed through hashstoreclient.main() on one copy of a store "
            "and through the API on another; same outcome class, API values present in the output, equal abstract states; "
            "create (-chs) over a configuration grid in both directions; option values padded with blanks / newline / tab reach the "
            "API as given; the retrieve verbs show exactly the first 1000 bytes (long CJK and text-then-binary content).", E_NOTE,
            "bounded-exhaustive differential enumeration client vs API", "4/C20"),
})

NOT_YET = {}


def main():
    props = [json.loads(l)["id"] for l in open(os.path.join(V, "properties.jsonl"))]
    checks = []
    for pid in props:
        if pid not in CHECKS:
            continue
        eng, cat, text, note, tech, ref = CHECKS[pid]
        checks.append({
            "property_id": pid,
            "quick_cmd": "./check %s --tier quick" % pid,
            "thorough_cmd": "./check %s --tier thorough" % pid,
            "evidence_file": "/verif/evidence/%s.json" % pid,
            "replay_cmd_template": "./check replay {path}",
            "engine": eng,
            "level_claimed": {"category": cat, "text": text, "design_ref": "DESIGN.md section " + ref},
            "level_note": note,
            "technique": tech,
        })
    na = [{"property_id": p, "reason": NOT_YET.get(p, "check not built yet in this round; planned in DESIGN.md section 4")}
          for p in props if p not in CHECKS]
    hooks_commits = []
    m = {
        "version": 1,
        "setup_cmd": "./check selftest",
        "hooks": {
            "guard": "HASHSTORE_VERIF",
            "enable": "no source hooks: the checks own the environment from outside the package by replacing module "
                      "attributes (os.*, builtins.open, fcntl.flock, tempfile names, the package's threading / "
                      "multiprocessing references) inside the checking process only",
            "baseline_off_cmd": "cd /repo && /venv/bin/python -m pytest -ra -q -p no:cacheprovider --timeout=900 "
                                "--continue-on-collection-errors",
            "source_commits": hooks_commits,
            "add_only": True,
        },
        "engines": [
            {"name": "T", "path": "hsverif/engine_t.py",
             "serves_properties": ["C07", "C08", "C09", "C12", "C16"],
             "kind_free_text": "thread-interleaving explorer of the real FileHashStore: controlled scheduler, scheduling "
                               "points at file-system calls / raw I/O / lock operations, DFS with exact state caching, "
                               "persistent-set reduction with verified footprints, linearizability oracle"},
            {"name": "L", "path": "hsverif/engine_l.py",
             "serves_properties": ["C01", "C02", "C07", "C12"],
             "kind_free_text": "iterative context bounding at source-line / bytecode granularity: each thread is pre-empted "
                               "at its n-th trace event for every n (bound 1); thorough tier, selected scenarios: a second "
                               "pre-emption at every later event of either thread where another thread can run (bound 2); "
                               "same linearizability oracle"},
            {"name": "F", "path": "hsverif/engine_f.py",
             "serves_properties": ["C08", "C09", "C10", "C13"],
             "kind_free_text": "single-call recorder: crash image before every file-system operation, one injected "
                               "OSError per fault site x errno x {one-off, persistent}"},
            {"name": "E", "path": "hsverif/checks",
             "serves_properties": ["C01", "C02", "C06", "C14", "C15", "C17", "C18", "C20"],
             "kind_free_text": "complete finite products of inputs / configurations against independent oracles"},
            {"name": "S", "path": "hsverif/engine_s.py",
             "serves_properties": ["C01", "C02", "C03", "C04", "C05", "C11", "C16", "C19"],
             "kind_free_text": "sequential explicit-state explorer of the real FileHashStore (BFS over call sequences, "
                               "de-duplicated on the concrete directory tree, reference-model oracle)"},
        ],
        "checks": checks,
        "not_applicable": na,
        "notes": "All checks run the code in /repo/src (editable install) in-process; nothing is built.",
    }
    with open(os.path.join(V, "MANIFEST.json"), "w") as f:
        json.dump(m, f, indent=1)
        f.write("\n")
    r = subprocess.run(["python3-vt", "-c", "import json,jsonschema,sys;"
                        "jsonschema.validate(json.load(open('%s/MANIFEST.json')),json.load(open('/root/.vp/MANIFEST.schema.json')));"
                        "print('MANIFEST valid')" % V])
    sys.exit(r.returncode)


main()
