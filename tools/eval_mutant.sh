#!/bin/bash
# tools/eval_mutant.sh <Cxx>[@prefix] <check> [<check> ...]: run checks against the changed tree in /tmp/<prefix>_<Cxx>
spec=$1; shift; id=${spec%@*}; pre=wt
case "$spec" in *@*) pre=${spec#*@};; esac
wtdir=/tmp/${pre}_$id
for c in "$@"; do
  s=$(date +%s)
  out=$(HSVERIF_REPO=$wtdir ./check $c --tier quick 2>&1); rc=$?
  echo "mutant=$spec check=$c rc=$rc $(( $(date +%s) - s ))s viol=$(echo "$out" | grep -c '^VIOLATION') :: $(echo "$out" | grep -m1 'what:' | cut -c1-220)"
done
