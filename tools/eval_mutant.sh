#!/bin/bash
# tools/eval_mutant.sh <worktree-id> <check> [<check> ...]: run checks against the changed tree in /tmp/wt_<id>
id=$1; shift
for c in "$@"; do
  s=$(date +%s)
  out=$(HSVERIF_REPO=/tmp/wt_$id ./check $c --tier quick 2>&1); rc=$?
  echo "mutant=$id check=$c rc=$rc $(( $(date +%s) - s ))s viol=$(echo "$out" | grep -c '^VIOLATION') :: $(echo "$out" | grep -m1 'what:' | cut -c1-220)"
done
