"""Calls x starting states for the engine-F checks (C13 C10 C09b C08b) and the probes they share."""
import os

from . import common, env, engine_f, ops as O, tscen
from .absx import Layout, abstract
from .common import DEFAULT_NS, restore
from .specs import make_store

P = tscen.P
Q = "xp"  # the bystander: the interrupted pid "p" is a suffix of it
LONGQ = "q" * 9000
LQ = tuple("q%d" % i + "x" * 3000 for i in range(1, 6))
PIDS = ("p", Q, "r", LONGQ) + LQ
FORMATS = (DEFAULT_NS, "f2")

QMETA = ("store_meta", Q, None, "v0")
STATES = {
    "empty": (),
    "q=A": (("store", Q, "A", None), QMETA),
    "q=B": (("store", Q, "B", None), QMETA),
    "p=A": (("store", "p", "A", None),),
    "p=A,q=A": (("store", "p", "A", None), ("store", Q, "A", None), QMETA),
    "p=A+docs,q=B": (("store", "p", "A", None), ("store_meta", "p", None, "v0"), ("store_meta", "p", "f2", "v0"),
                     ("store", Q, "B", None), QMETA),
    "p=L,q=L": (("store", "p", "L", None), ("store", Q, "L", None)),
    "A-unreferenced": (("store_nopid", "A"), ("store", Q, "B", None), QMETA),
    "p=N": (("tag", "p", "N"), ("store", Q, "B", None), QMETA),  # p is bound to a cid whose object is missing
    "p=N,q=N": (("tag", "p", "N"), ("tag", Q, "N")),
    "p=A,longq=A": (("store", "p", "A", None), ("store", LONGQ, "A", None)),
    "longq=A,p=A": (("store", LONGQ, "A", None), ("store", "p", "A", None)),
    "p=A,5 long pids=A": (("store", LQ[0], "A", None), ("store", "p", "A", None)) + tuple(("store", x, "A", None) for x in LQ[1:]),
}
WARM = (("store", "p", "A", None), ("store", Q, "B", None), ("store", "r", "L", None),
        ("store_meta", "p", None, "v0"), ("store_meta", Q, None, "v0"),
        ("delete", "p"), ("delete", Q), ("delete", "r"),
        ("store", "p", "B", None), ("store", Q, "A", None), ("delete", "p"), ("delete", Q))

# (call, starting state, what it exercises)
CASES = [
    (("store", "p", "A", None), "empty", "store new content"),
    (("store", "p", "A", None), "q=A", "store duplicate content, additional pid for the cid"),
    (("store", "p", "A", None), "q=B", "store new content beside a bystander"),
    (("store", "p", "A", "ok:sha256+size"), "q=A", "store duplicate content with validation"),
    (("store", "p", "A", None), "A-unreferenced", "store content present but unreferenced (first pid for the cid)"),
    (("store", "p", "L", None), "q=B", "store multi-buffer content"),
    (("store_nopid", "A"), "q=B", "store without pid"),
    (("tag", "p", "A"), "A-unreferenced", "tag, cid list absent"),
    (("tag", "p", "A"), "q=A", "tag, cid list present"),
    (("delete", "p"), "p=A", "delete sole reference"),
    (("delete", "p"), "p=A,q=A", "delete shared reference"),
    (("delete", "p"), "p=A+docs,q=B", "delete sole reference with metadata"),
    (("delete", "p"), "p=N", "delete a pid whose object is missing"),
    (("delete", "p"), "p=N,q=N", "delete a pid whose object is missing, cid list shared"),
    (("store_meta", "p", None, "v1"), "q=B", "store metadata, new document"),
    (("store_meta", "p", None, "v2"), "p=A+docs,q=B", "store metadata, overwrite (multi-buffer)"),
    (("delete_meta", "p", "f2"), "p=A+docs,q=B", "delete one metadata document"),
    (("delete_meta", "p", None), "p=A+docs,q=B", "delete all metadata documents"),
]
LONG_LIST_CASES = [
    (("delete", "p"), "p=A,5 long pids=A", "delete shared reference, cid list rewritten with several write(2) calls"),
    (("delete", "p"), "p=A,longq=A", "delete shared reference, bystander pid longer than one I/O buffer listed after it"),
    (("delete", "p"), "longq=A,p=A", "delete shared reference, bystander pid longer than one I/O buffer listed before it"),
]
THOROUGH_CASES = [
    (("store", "p", "B", None), "p=A,q=A", "rejected store (pid bound)"),
    (("store", "p", "A", None), "p=A,q=A", "rejected store (pid bound to the same content)"),
    (("tag", "p", "A"), "p=A,q=A", "rejected tag (pid bound to the same cid)"),
    (("tag", "p", "A"), "p=A", "rejected tag (pid is the only reference of the same cid)"),
    (("tag", "p", "B"), "p=A,q=A", "rejected tag (pid bound, other cid without reference list)"),
    (("tag", "p", "B"), "p=A", "rejected tag (pid bound)"),
    (("store", "p", "A", "badck:sha256"), "q=A", "rejected store (bad checksum), duplicate content"),
    (("store", "p", "A", "ok:sha224"), "empty", "store with non-default checksum algorithm"),
    (("delete", "p"), "p=L,q=L", "delete shared reference, multi-buffer object"),
    (("store", "p", "E", None), "q=B", "store empty content"),
    (("tag", "p", "N"), "q=B", "tag to a cid without object"),
    (("dii", "A", "badsize"), "A-unreferenced", "delete_if_invalid_object removing an unreferenced object"),
]

# the same calls on a depth-1 / width-1 store, where unrelated cids and pids share shard directories
STATES.update({
    "q=S2": (("store", Q, "S2", None), QMETA),
    "p=S1,q=S2": (("store", "p", "S1", None), ("store", Q, "S2", None), QMETA),
    "S1-unreferenced,q=S2": (("store_nopid", "S1"), ("store", Q, "S2", None), QMETA),
})
SHALLOW_CASES = [
    (("store", "p", "S1", None), "q=S2", "store new content beside a bystander whose cid shares the shard directory [depth 1 width 1]", "1x1"),
    (("tag", "p", "S1"), "S1-unreferenced,q=S2", "tag, cid list absent, bystander cid in the same shard directory [depth 1 width 1]", "1x1"),
    (("delete", "p"), "p=S1,q=S2", "delete sole reference, bystander cid in the same shard directory [depth 1 width 1]", "1x1"),
    (("store_meta", "p", None, "v1"), "p=S1,q=S2", "store metadata [depth 1 width 1]", "1x1"),
]

# a directory listing in the other order: the calls that walk a pid's two documents
LISTING_CASES = [
    (("delete", "p"), "p=A+docs,q=B", "delete sole reference with metadata [listing reversed]", "rev"),
    (("delete_meta", "p", None), "p=A+docs,q=B", "delete all metadata documents [listing reversed]", "rev"),
]

_TREES = {}


def configure(cfg=None):
    """Select the store configuration the following calls of this module use (per job; default: depth 3, width 2)."""
    global P, LAYOUT
    env.STATE.list_reverse = cfg == "rev"  # environment answer: directory listings in reverse order
    P = tscen.P11 if cfg == "1x1" else tscen.P
    LAYOUT = Layout(P["depth"], P["width"], P["algo"])


def ctx():
    return tscen.ctx()


def init_tree(state):
    key = (os.getpid(), state, P["depth"], P["width"])
    if key not in _TREES:
        c = ctx()
        root = os.path.join(common.scratch(), "finit")
        restore(root, {})
        os.rmdir(root)
        store = make_store(root, P, {"USE_MULTIPROCESSING": "False"})
        for op in WARM + STATES[state]:
            cls, _ = O.run(store, op, c)
            if cls != "ok":
                raise common.SetupFailure("history %r failed: %s" % (op, cls))
        _TREES[key] = common.snapshot(root)
    return _TREES[key]


LAYOUT = Layout(P["depth"], P["width"], P["algo"])


def absof(tree):
    return abstract(tree, LAYOUT, PIDS, FORMATS)


def visible(a, c):
    """API-visible state of an abstraction: bindings with list membership, objects, documents."""
    bind = {}
    for pid, t in a.pid_refs.items():
        bind[repr(pid)] = (t, pid in (a.cid_lines(t) or []) if isinstance(pid, str) else None)
    members = {cid: tuple(sorted(set(a.cid_lines(cid)))) for cid in a.cid_refs}
    return {"bind": bind, "members": members, "objects": {k: len(v) for k, v in a.objects.items()},
            "corrupt": sorted(a.corrupt), "meta": {repr(k): v for k, v in a.metadata.items()}}


def probe(store, c, pids=PIDS):
    """What the API says about every pid: object bytes / error class, every document."""
    out = {}
    for pid in pids:
        r = O.run(store, ("retrieve", pid), c)
        out[pid] = [r[0] if r[0] != "ok" else ("ok", r[1])]
        for f in FORMATS:
            m = O.run(store, ("retrieve_meta", pid, f), c)
            out[pid].append(m[0] if m[0] != "ok" else ("ok", m[1]))
    return out
