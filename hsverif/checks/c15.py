"""C15 - on-disk layout follows the published HashStore layout for every configuration."""
import hashlib
import os

import yaml

from .. import common
from ..absx import Layout
from ..common import STORE_ALGOS, pattern, snapshot
from ..par import pmap

NS = "https://ns.dataone.org/service/types/v2.0#SystemMetadata"
PIDS = ["pid-1", "doi:10.18739/A2901ZH2M", "ünïcode/pid:✓\U0001F600", "shared", "gone"]
LONG_PIDS = ["漢" * 1100 + "/v1", "x" * 2047 + "é/v2",  # UTF-8 longer than the character count
             # strings that are NOT in Unicode normal form C (or KC): H is taken over the UTF-8 bytes of the string as given
             "cafe\u0301/1", "\u212b-unit", "\uf900\uf901", "\u1100\u1161\u11a8", "\ufb01le", "e\u0301\u0323"]
FORMATS = [None, "fmt://a", "b", "fmt/cafe\u0301"]
CONTENTS = {"c1": pattern(10, 1), "c2": pattern(5000, 2), "c3": b"", "c4": pattern(77, 4)}
DOCS = {"d1": b"<a/>", "d2": pattern(4100, 8)}


def _config(cfg):
    depth, width, algo = cfg
    from hashstore.filehashstore import FileHashStore
    root = os.path.join(common.scratch(), "c15-%d-%d-%s" % (depth, width, algo))
    store = FileHashStore({"store_path": root, "store_depth": depth, "store_width": width, "store_algorithm": algo,
                           "store_metadata_namespace": NS})
    paths = {}
    for k, v in list(CONTENTS.items()) + list(DOCS.items()):
        paths[k] = os.path.join(common.scratch(), "c15in_%s" % k)
        with open(paths[k], "wb") as f:
            f.write(v)
    lay = Layout(depth, width, algo)
    hl = STORE_ALGOS[algo]
    cid = {k: hashlib.new(hl, v).hexdigest() for k, v in CONTENTS.items()}
    want = {}
    errs = []
    # the script
    store.store_object("urn:node:" + PIDS[0], paths["c1"])  # listed before its suffix 'pid-1'
    store.store_object(PIDS[0], paths["c1"])
    store.store_object(PIDS[1], paths["c2"])
    store.store_object(PIDS[2], paths["c3"])
    store.store_object(PIDS[3], paths["c1"])
    store.store_object(PIDS[4], paths["c2"])
    md = store.store_object(None, paths["c4"])
    store.tag_object("tagged", md.cid)
    # identifiers that happen to be the path of an existing file (absolute, and relative to the cwd) and very long
    # non-ASCII identifiers: still hashed as UTF-8 strings
    file_pids = [paths["c1"], os.path.relpath(paths["d1"])] + LONG_PIDS
    for fp in file_pids:
        store.store_object(fp, paths["c4"])
        store.store_metadata(fp, paths["d1"])
        want[lay.meta_path(fp, NS)] = DOCS["d1"]
    for i, pid in enumerate(PIDS):
        for j, fmt in enumerate(FORMATS):
            doc = "d1" if (i + j) % 2 else "d2"
            if fmt is None:
                store.store_metadata(pid, paths[doc])
            else:
                store.store_metadata(pid, paths[doc], fmt)
            if pid != "gone":
                want[lay.meta_path(pid, NS if fmt is None else fmt)] = DOCS[doc]
    # a non-ASCII pid that is the only reference of its content, stored and deleted again: nothing may remain
    store.store_object("gone-\u6e2c\u8a66", paths["d2"])
    store.delete_object("gone-\u6e2c\u8a66")
    store.delete_object("gone")
    store.delete_metadata(PIDS[0], "b")
    del want[lay.meta_path(PIDS[0], "b")]
    # the predicted tree (independent implementation of the README layout)
    bind = {"urn:node:" + PIDS[0]: "c1", PIDS[0]: "c1", PIDS[1]: "c2", PIDS[2]: "c3", PIDS[3]: "c1", "tagged": "c4"}
    for fp in file_pids:
        bind[fp] = "c4"
    for pid, c in bind.items():
        want[lay.pid_ref_path(pid)] = cid[c].encode()
        want[lay.obj_path(cid[c])] = CONTENTS[c]
    lists = {"c1": ["urn:node:" + PIDS[0], PIDS[0], PIDS[3]], "c2": [PIDS[1]], "c3": [PIDS[2]], "c4": ["tagged"] + file_pids}
    for c, pids in lists.items():
        want[lay.cid_ref_path(cid[c])] = "".join(p + "\n" for p in pids).encode("utf-8")
    got = {r: b for r, b in snapshot(root).items() if b is not None}
    cfgfile = got.pop("hashstore.yaml", None)
    for r in sorted(set(want) | set(got)):
        if r not in got:
            errs.append("expected file missing: %s" % _cls(r))
        elif r not in want:
            errs.append("file at an address the layout does not predict: %s" % _cls(r))
        elif got[r] != want[r]:
            errs.append("file content differs from the layout's: %s" % _cls(r))
    if cfgfile is None:
        errs.append("hashstore.yaml missing")
    else:
        y = yaml.safe_load(cfgfile)
        for k, v in (("store_depth", depth), ("store_width", width), ("store_algorithm", algo),
                     ("store_metadata_namespace", NS)):
            if not isinstance(y, dict) or y.get(k) != v:
                errs.append("hashstore.yaml does not record %s under the documented key" % k)
    # and everything is retrievable through the API at those addresses
    for pid, c in bind.items():
        s = store.retrieve_object(pid)
        if s.read() != CONTENTS[c]:
            errs.append("retrieve_object returns other bytes than the file at the layout's address")
        s.close()
    return cfg, len(want), sorted(set(errs))


def _cls(r):
    p = r.split("/")
    return "/".join(p[:2]) if p[0] == "refs" else p[0]


def main(tier):
    rep = common.Report("C15", tier, "exploration")
    depths = range(1, 7)
    widths = range(1, 5)
    algos = list(STORE_ALGOS)
    cfgs = [(d, w, a) for d in depths for w in widths for a in algos]
    n = files = 0
    shapes = set()
    for cfg, nfiles, errs in pmap(_config, cfgs):
        n += 1
        files += nfiles
        shapes.add((cfg[0], cfg[1], len(hashlib.new(STORE_ALGOS[cfg[2]]).hexdigest())))
        for e in errs:
            rep.violation({"kind": "layout", "what": e}, {"depth": cfg[0], "width": cfg[1], "algorithm": cfg[2]})
    rep.coverage.update({
        "evaluations": n, "distinct_nontrivial": len(shapes), "files_compared": files, "exhaustive": True,
        "rule": "depth 1-6 x width 1-4 x 5 store algorithms; per store a fixed script (7 pids incl. non-ASCII and path-like, "
                "3 formats, 4 contents incl. empty, shared content, a delete_object, a delete_metadata, a no-pid store + tag); "
                "the ENTIRE tree (paths and bytes) is compared with the tree predicted by an independent implementation of the "
                "README layout; distinct = (depth, width, digest length)",
    })
    rep.assumptions += ["the expected paths come from hsverif/absx.py which shares no code with the package"]
    return rep.finish([{"depth": 3, "width": 2, "algorithm": "SHA-256", "files": files // max(n, 1)}])


def replay(rep):
    r = rep["replay"]
    cfg, n, errs = _config((r["depth"], r["width"], r["algorithm"]))
    print(errs)
    return 1 if errs else 0
