"""C07 - concurrent object operations are linearizable (engine T)."""
import itertools
import json

from .. import common, tscen
from ._t import run_scenarios, finish_t

MENU = {
    "s1A": ("store", "p1", "A", None), "s2A": ("store", "p2", "A", None), "s1B": ("store", "p1", "B", None),
    "t1A": ("tag", "p1", "A"), "t2A": ("tag", "p2", "A"), "t1B": ("tag", "p1", "B"),
    "d1": ("delete", "p1"), "d2": ("delete", "p2"),
    "xA": ("dii", "A", "badsize"), "vA": ("dii", "A", "ok"),
}
STATES = ["empty", "p1A", "p1A,p2A", "Aunref"]

# pairs that cannot interact at all (disjoint pids and cids) or that are pure re-runs of a
# combination already present are left to the thorough tier
QUICK_PAIRS = [
    ("s1A", "s1A"), ("s1A", "s2A"), ("s1A", "s1B"), ("s1A", "t1A"), ("s1A", "t2A"), ("s1A", "d1"), ("s1A", "xA"),
    ("s2A", "d1"), ("s2A", "t1B"), ("s2A", "xA"),
    ("t1A", "t1A"), ("t1A", "t2A"), ("t1A", "t1B"), ("t1A", "d1"), ("t2A", "d1"), ("t1A", "xA"),
    ("d1", "d1"), ("d1", "d2"), ("d1", "xA"), ("d1", "vA"), ("xA", "xA"), ("s1B", "d1"),
]
QUICK_STATES = {"empty", "p1A", "p1A,p2A", "Aunref"}


def _useful(a, b, st):
    """Drop combinations in which neither call can do anything in that starting state."""
    ops = (MENU[a], MENU[b])
    bound = {"empty": {}, "p1A": {"p1": "A"}, "p1A,p2A": {"p1": "A", "p2": "A"}, "Aunref": {}}[st]
    has_A = st != "empty"

    def live(op):
        if op[0] == "delete":
            return op[1] in bound
        if op[0] == "dii":
            return has_A
        return True  # store / tag always execute reference code (maybe rejected)

    def relevant(op):
        # a store/tag on a pid that is already bound is a pure rejection; keep it only when the
        # partner can change that pid's binding
        if op[0] in ("store", "tag") and op[1] in bound:
            return any(o[0] == "delete" and o[1] == op[1] for o in ops)
        return live(op)

    return relevant(ops[0]) or relevant(ops[1])


def scenarios(tier):
    out = []
    names = sorted(MENU)
    pairs = QUICK_PAIRS if tier == "quick" else list(itertools.combinations_with_replacement(names, 2))
    for a, b in pairs:
        a, b = sorted((a, b))  # one orientation in both tiers, so that signatures coincide
        for st in STATES:
            if tier == "quick" and st not in QUICK_STATES:
                continue
            if not _useful(a, b, st):
                continue
            if tier == "quick":
                # one representative starting state per pair unless the state changes which branch runs
                pass
            out.append({"name": "%s||%s from %s" % (a, b, st), "init": st,
                        "threads": {"T1": [MENU[a]], "T2": [MENU[b]]}, "pids": ("p1", "p2")})
    # two quick triples (pre-emption bound 2) that need a third party: a waiter woken by the release of ANOTHER
    # cid, and a late arrival overtaking a notified waiter
    t3 = {"t3B": ("tag", "p3", "B"), "t3A": ("tag", "p3", "A")}
    mq = dict(MENU, **t3)
    for tri, st in [(("t1A", "t2A", "t3B"), "Aunref"), (("xA", "t1A", "t2A"), "Aunref"), (("t1A", "t1B", "t3A"), "Aunref")]:
        out.append({"name": "%s||%s||%s from %s (pre-emption bound 2)" % (tri + (st,)), "init": st, "bound": 2,
                    "threads": {"T%d" % (i + 1): [mq[x]] for i, x in enumerate(tri)}, "pids": ("p1", "p2", "p3")})
    # three calls on ONE pid (pre-emption bound 2): a rejected or waiting call between two others must neither release what
    # it does not hold nor swallow the wake-up meant for the third (every multiset with a delete and a store / tag; thorough:
    # every multiset of three same-pid calls from every starting state in which they are not all pure rejections)
    same_pid = ["s1A", "s1B", "t1A", "d1"]
    if tier == "quick":
        fam = [(t, "p1A") for t in itertools.combinations_with_replacement(same_pid, 3)
               if "d1" in t and any(x != "d1" for x in t)]
    else:
        fam = [(t, st) for t in itertools.combinations_with_replacement(same_pid, 3) for st in ("empty", "p1A", "p1B", "Aunref")
               if not (st == "empty" and all(x == "d1" for x in t))]
    for tri, st in fam:
        out.append({"name": "%s||%s||%s from %s (pre-emption bound 2)" % (tri + (st,)), "init": st, "bound": 2,
                    "threads": {"T%d" % (i + 1): [MENU[x]] for i, x in enumerate(tri)}, "pids": ("p1", "p2")})
    # one injected fault in one of two overlapping calls: the sequential reference runs inject the same fault
    out.append({"name": "s1A||s2A from empty + persistent ENOSPC at T1's object move", "init": "empty",
                "threads": {"T1": [MENU["s1A"]], "T2": [MENU["s2A"]]}, "pids": ("p1", "p2"),
                "faults": {"T1": ("rename:rename:objects/tmp:objects", 0, "ENOSPC", True)}})
    out.append({"name": "t1A||t2A from Aunref + EIO at T1's cid-list append", "init": "Aunref",
                "threads": {"T1": [MENU["t1A"]], "T2": [MENU["t2A"]]}, "pids": ("p1", "p2"),
                "faults": {"T1": ("create:open:w:refs/tmp", 1, "EIO", False)}})
    # a pid that is already bound to OTHER content: the store writes the new object first and is then rejected
    for a, b in (("s1A", "s2A"), ("s1A", "t2A"), ("s1A", "xA")):
        out.append({"name": "%s||%s from p1B" % (a, b), "init": "p1B",
                    "threads": {"T1": [MENU[a]], "T2": [MENU[b]]}, "pids": ("p1", "p2")})
    out.append({"name": "s1A||s2A from empty + EIO at T1's first reference temp file", "init": "empty",
                "threads": {"T1": [MENU["s1A"]], "T2": [MENU["s2A"]]}, "pids": ("p1", "p2"),
                "faults": {"T1": ("create:open:w:refs/tmp", 0, "EIO", False)}})
    # a failing tag in a PRISTINE depth-1/width-1 store beside a tag of another cid that shares its shard directory: whatever
    # the failing call cleans up must be its own (persistent fault: shutil.move would absorb a one-off rename error)
    for site in ("rename:rename:refs/tmp:refs/pids", "rename:rename:refs/tmp:refs/cids"):
        out.append({"name": "tag(p1,S1)||tag(p2,S2) pristine [depth 1 width 1] + persistent EIO at T1's %s" % site.split(":")[-1],
                    "init": "empty", "pristine": True, "p": "1x1", "pids": ("p1", "p2"),
                    "threads": {"T1": [("tag", "p1", "S1")], "T2": [("tag", "p2", "S2")]},
                    "faults": {"T1": (site, 0, "EIO", True)}})
    # every fault-site class of one call (one-off EIO; thorough: also persistent) x every interleaving with the other call:
    # the sequential reference runs inject the same fault (scenarios shared with C08, judged for linearizability here)
    from .c08 import faulted_scenarios
    for sp in faulted_scenarios(tier):
        if any(op[0] in ("store_meta", "delete_meta") for prog in sp["threads"].values() for op in prog):
            continue
        sp = {k: v for k, v in sp.items() if k not in ("judge", "followups", "formats")}
        sp["pids"] = ("p1", "p2")
        if sp["name"] not in {x["name"] for x in out}:
            out.append(sp)
    # a store whose shard directories are shared by different contents (depth 1, width 1)
    out.append({"name": "dii(S2 wrong)||store(p1,S1) from S2 unreferenced [depth 1 width 1]", "init": "S2unref", "p": "1x1",
                "threads": {"T1": [("dii", "S2", "badsize")], "T2": [("store", "p1", "S1", None)]}, "pids": ("p1", "p2")})
    out.append({"name": "delete(p2)||store(p1,S1) from p2=S2 [depth 1 width 1]", "init": "p2S2", "p": "1x1",
                "threads": {"T1": [("delete", "p2")], "T2": [("store", "p1", "S1", None)]}, "pids": ("p1", "p2")})
    _follow(out)
    out += line_level_scenarios(tier, out)
    if tier == "thorough":
        for a, b, st in [("s2A", "d1", "p1A"), ("t1A", "d1", "empty"), ("s1A", "s2A", "empty"), ("s1A", "s1B", "empty")]:
            out.append({"name": "%s||%s from %s (pristine directories)" % (a, b, st), "init": st, "pristine": True, "time_cap": 400,
                        "threads": {"T1": [MENU[a]], "T2": [MENU[b]]}, "pids": ("p1", "p2")})
        # two calls per thread
        out.append({"name": "s1A;d1||s2A from empty", "init": "empty",
                    "threads": {"T1": [MENU["s1A"], MENU["d1"]], "T2": [MENU["s2A"]]}, "pids": ("p1", "p2")})
        out.append({"name": "d1;s1A||d2 from p1A,p2A", "init": "p1A,p2A",
                    "threads": {"T1": [MENU["d1"], MENU["s1A"]], "T2": [MENU["d2"]]}, "pids": ("p1", "p2")})
        # triples, pre-emption bound 2
        p3 = {"s3A": ("store", "p3", "A", None), "t3A": ("tag", "p3", "A"), "d3": ("delete", "p3")}
        m = dict(MENU, **p3)
        for tri, st in [(("s1A", "s2A", "s3A"), "empty"), (("s2A", "d1", "xA"), "p1A"), (("t1A", "t2A", "d1"), "Aunref"),
                        (("d1", "d2", "s3A"), "p1A,p2A"), (("s1A", "s1A", "d1"), "empty"), (("t2A", "d1", "d1"), "p1A")]:
            out.append({"name": "%s||%s||%s from %s (pre-emption bound 2)" % (tri + (st,)), "init": st, "bound": 2,
                        "threads": {"T%d" % (i + 1): [m[x]] for i, x in enumerate(tri)}, "pids": ("p1", "p2", "p3")})
    _follow(out)
    return out


def _l_state(a, b):
    names = (a, b)
    if "d2" in names:
        return "p1A,p2A"
    if "d1" in names:
        return "p1A"
    if "xA" in names or "vA" in names:
        return "Aunref"
    return "empty"


# calls that share no pid, no cid and no file: independent for engine T, but they run on ONE store instance, so anything
# the package keeps in memory between two lines (a cached buffer, a lazily filled table) is shared between them
L_EXTRA = [
    ("store(p1,A)||store(p2,B) from empty", "empty", ("store", "p1", "A", None), ("store", "p2", "B", None)),
    ("store(p1,L)||store(p2,K) from empty", "empty", ("store", "p1", "L", None), ("store", "p2", "K", None)),
    ("store(p1,L)||store(p2,A,+sha3_256) from empty", "empty", ("store", "p1", "L", None), ("store", "p2", "A", "add:sha3_256")),
    ("store(p1,A,ok md5)||store(p2,B,bad sha1) from empty", "empty", ("store", "p1", "A", "ok:md5"), ("store", "p2", "B", "badck:sha1")),
    ("delete(p1)||store(p3,L) from p1A,p2B", "p1A,p2B", ("delete", "p1"), ("store", "p3", "L", None)),
    ("dii(A wrong)||store(p2,K) from Aunref", "Aunref", ("dii", "A", "badsize"), ("store", "p2", "K", None)),
]


def line_level_scenarios(tier, base):
    """Engine L (every source line of the package as a pre-emption point, one pre-emption): the quick pairs from one
    starting state each plus pairs of calls that are independent at file level; thorough: every two-thread scenario of
    the menu, and the quick selection again at BYTECODE granularity."""
    sel = []
    for a, b in QUICK_PAIRS:
        a, b = sorted((a, b))
        st = _l_state(a, b)
        sel.append({"name": "%s||%s from %s" % (a, b, st), "init": st,
                    "threads": {"T1": [MENU[a]], "T2": [MENU[b]]}, "pids": ("p1", "p2")})
    for name, st, o1, o2 in L_EXTRA:
        sel.append({"name": name, "init": st, "threads": {"T1": [o1], "T2": [o2]}, "pids": ("p1", "p2", "p3")})
    _follow(sel)
    out = []
    if tier == "quick":
        for sp in sel:
            out += tscen.line_level(sp, "line", 2)
        return out
    seen = set()
    for sp in list(base) + sel:
        if len(sp["threads"]) != 2 or sp.get("faults") or sp["name"] in seen or any(len(v) != 1 for v in sp["threads"].values()):
            continue
        seen.add(sp["name"])
        out += tscen.line_level(sp, "line", 2)
    for sp in sel:
        out += tscen.line_level(sp, "opcode", 8)
    # TWO pre-emptions at source-line granularity (the second one at every event of either thread at which the other could
    # run): some 10^5 executions per scenario, for three scenarios in which both calls work on one cid
    for sp in sel:
        if sp["name"] in ("s1A||s2A from empty", "d1||s2A from p1A", "d1||t1A from p1A"):
            out += [dict(j, time_cap=2400) for j in tscen.line_level(sp, "line", 16, lbound=2)]
    return out


def _follow(specs):
    """The instance is used on after the overlapping calls: deleting every pid of the scenario must behave, and leave
    behind, what it does after some sequential order of the calls."""
    for sp in specs:
        if "followups" not in sp:
            sp["followups"] = [("delete", p) for p in sp.get("pids", ("p1", "p2"))]
            sp["after"] = True


def main(tier):
    rep = common.Report("C07", tier, "model_checking")
    specs = scenarios(tier)
    results = run_scenarios(rep, specs)
    rep.assumptions += [
        "scheduling points: every file-system call on a shared path, every raw read/write/truncate of a shared file, "
        "every lock/condition operation; temp files are thread-private",
        "linearizability oracle: outcomes, API-visible final state and directory abstraction must equal those of some "
        "sequential order of the same calls run on the real code; extra permitted outcome: in-progress rejection of a "
        "store whose pid another thread stores",
        "2 threads: exhaustive up to commutation of independent steps (state caching + verified footprints); "
        "3 threads: pre-emption bound 2",
        "line level (engine L): every execution of two calls with at most ONE pre-emption, the pre-emption placed at every "
        "source line of the package (thorough: every bytecode) and every visible operation of either thread; thorough: for "
        "three scenarios every execution with at most TWO pre-emptions at source-line granularity",
    ]
    return finish_t(rep, results)


def replay(rep):
    from ._t import replay_schedule
    return replay_schedule(rep)
