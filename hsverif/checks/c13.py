"""C13 - I/O failures surface as errors and leave no half-bound pid (engine F, fault mode)."""
import os

from .. import common, env, engine_f, fscen, ops as O
from ..common import restore, snapshot
from ..par import pmap
from ..specs import make_store

TIER = "quick"


def _fresh(root, tree):
    restore(root, tree)
    env.set_root(root)
    return make_store(root, fscen.P, {"USE_MULTIPROCESSING": "False"})


def sweep(case, errnos, check, mode="th", collect=None, probes=False):
    """Recording run + one faulted run per (site, errno, mode).  `check(info)` yields violations."""
    op, state, label = case[:3]
    fscen.configure(case[3] if len(case) > 3 else None)
    c = fscen.ctx()
    root = os.path.join(common.scratch(), "fstore")
    init = fscen.init_tree(state)
    env.install()
    base = engine_f.run_call(root, init, fscen.P, op, c, mode=mode)
    tree0 = snapshot(root)
    s0 = _fresh(root, tree0)
    ref = {"outcome": base.outcome, "vis": fscen.visible(fscen.absof(tree0), c), "probe": fscen.probe(s0, c)}
    si = _fresh(root, init)
    ini = {"vis": fscen.visible(fscen.absof(init), c), "probe": fscen.probe(si, c)}
    sites = [(i, o) for i, o in enumerate(base.sites) if engine_f.is_fault_site(o)]
    out = {"case": label, "call": O.name(op), "state": state, "ops": len(base.sites), "fault_sites": len(sites),
           "runs": 0, "violations": [], "classes": set(), "absorbed": 0, "residue_runs": 0}
    occ = {}
    names = {}
    for i, sop in sites:
        k = site_class(sop)
        names[i] = "%s#%d" % (k, occ.get(k, 0))
        occ[k] = occ.get(k, 0) + 1
    for i, sop in sites:
        for en in errnos:
            for persistent in (False, True):
                r = engine_f.run_call(root, init, fscen.P, op, c, fault=(i, engine_f.ERRNOS[en], persistent), mode=mode)
                if r.sites[:i + 1] != base.sites[:i + 1]:
                    raise common.HarnessError("replay divergence before fault site %d of %s" % (i, label))
                if not r.injected:
                    raise common.HarnessError("fault at site %d of %s was not injected" % (i, label))
                out["runs"] += 1
                treef = snapshot(root)
                af = fscen.absof(treef)
                info = {"op": op, "case": label, "site": i, "site_op": sop, "errno": en, "persistent": persistent,
                        "run": r, "tree": treef, "abs": af, "vis": fscen.visible(af, c), "ref": ref, "ini": ini,
                        "root": root, "ctx": c, "state": state}
                if r.outcome[0] == "ok" and base.outcome[0] == "ok":
                    out["absorbed"] += 1
                if af.residue:
                    out["residue_runs"] += 1
                out["classes"].add((label, sop[0], sop[1], r.outcome[0], persistent))
                if collect is not None:
                    collect.append((names[i], en, persistent, r.outcome[0], repr(sorted(info["vis"].items(), key=repr)),
                                    tuple(sorted(x for x, _ in af.residue))))
                for what, det in check(info):
                    sig = {"case": label, "site": names[i].rsplit("#", 1)[0], "occurrence": int(names[i].rsplit("#", 1)[1]),
                           "errno": en, "mode": "persistent" if persistent else "one-off", "what": what}
                    det = dict(det)
                    det.update({"call": list(op), "state": state, "site": i, "site_op": list(sop), "errno": en,
                                "persistent": persistent, "outcome": r.outcome[0], "config": case[3] if len(case) > 3 else None})
                    out["violations"].append((sig, det))
    # existence / size probes are file-system operations too: every stat of the call, in turn, fails once with EIO
    # (os.path.isfile / exists / getsize sit on top of it)
    if probes:
        pocc = {}
        for i, sop in enumerate(base.sites):
            if sop[0] != "probe" or sop[1] not in ("stat", "lstat"):
                continue
            k = site_class(sop)
            pname = "%s#%d" % (k, pocc.get(k, 0))
            pocc[k] = pocc.get(k, 0) + 1
            r = engine_f.run_call(root, init, fscen.P, op, c, fault=(i, engine_f.ERRNOS["EIO"], False, "any"), mode=mode)
            if not r.injected:
                continue
            out["runs"] += 1
            out["probe_runs"] = out.get("probe_runs", 0) + 1
            treef = snapshot(root)
            af = fscen.absof(treef)
            info = {"op": op, "case": label, "site": i, "site_op": sop, "errno": "EIO", "persistent": False,
                    "run": r, "tree": treef, "abs": af, "vis": fscen.visible(af, c), "ref": ref, "ini": ini,
                    "root": root, "ctx": c, "state": state}
            out["classes"].add((label, sop[0], sop[1], r.outcome[0], False))
            for what, det in check(info):
                sig = {"case": label, "site": k, "occurrence": int(pname.rsplit("#", 1)[1]), "errno": "EIO",
                       "mode": "one-off", "what": what}
                det = dict(det)
                det.update({"call": list(op), "state": state, "site": i, "site_op": list(sop), "errno": "EIO",
                            "persistent": False, "outcome": r.outcome[0]})
                out["violations"].append((sig, det))
    return out


from ..engine_f import site_class  # noqa: E402,F401


def c13_check(info):
    op, r, ref, ini, c = info["op"], info["run"], info["ref"], info["ini"], info["ctx"]
    vis = info["vis"]
    root = info["root"]
    sprobe = fscen.probe(_fresh(root, info["tree"]), c)
    kind = op[0]
    target = op[1] if kind in ("store", "tag", "delete", "store_meta", "delete_meta") else None
    # every other pid's data untouched
    for b in fscen.PIDS:
        if b == target:
            continue
        if sprobe[b] != ini["probe"][b]:
            yield "another pid's object or metadata changed", {"pid": b}
        if vis["bind"].get(repr(b)) != ini["vis"]["bind"].get(repr(b)):
            yield "another pid's references changed", {"pid": b}
    same_outcome = r.outcome[0] == ref["outcome"][0]
    if same_outcome and r.outcome[0] == "ok":
        if vis != ref["vis"]:
            yield "call reported success although its effect was not (wholly) achieved", {
                "diff": _visdiff(vis, ref["vis"])}
        return
    if same_outcome:
        return  # the rejection the fault-free call produces as well
    # the call raised because of the fault
    if kind in ("store", "tag"):
        was = ini["probe"][target][0]
        now = sprobe[target][0]
        bound_before = isinstance(was, tuple) or repr(target) in ini["vis"]["bind"]
        if bound_before:
            # the call could only be a rejected one: "its earlier binding is intact"
            if now != was or vis["bind"].get(repr(target)) != ini["vis"]["bind"].get(repr(target)):
                yield "after the failed call the pid's earlier binding is not intact", {"retrieve": _s(now)}
        else:
            if now != "PidRefsDoesNotExist":
                yield "after the failed call the pid is neither unbound nor bound as before", {"retrieve": _s(now)}
            if repr(target) in vis["bind"]:
                yield "after the failed call a pid reference file for the pid remains", {}
            if ref["outcome"][0] == "ok":
                s2 = _fresh(root, info["tree"])
                again = O.run(s2, op, c)
                if again[0] != "ok":
                    yield "the pid cannot be stored again at once after the failed call", {"retry": again[0]}
                else:
                    got = O.run(s2, ("retrieve", target), c)
                    if got[0] != "ok" and not (kind == "tag" and op[2] == "N"):
                        yield "after a successful retry the pid is not retrievable", {"retrieve": got[0]}
                # "at once" is first of all the SAME store object (a long-running service does not re-open its store after
                # an I/O error): whatever the failed call left behind in memory must not stand in the way either
                fresh_ok = again[0] == "ok"
                restore(root, info["tree"])
                env.set_root(root)
                again = O.run(r.store, op, c)
                if not fresh_ok:
                    pass  # what is on disk already stands in the way (reported above); the instance adds nothing
                elif again[0] != "ok":
                    yield "the pid cannot be stored again at once on the same store instance after the failed call", {
                        "retry": again[0], "message": str(again[1])[:160]}
                else:
                    got = O.run(r.store, ("retrieve", target), c)
                    if got[0] != "ok" and not (kind == "tag" and op[2] == "N"):
                        yield "after a successful retry on the same store instance the pid is not retrievable", {"retrieve": got[0]}
                    if fscen.visible(fscen.absof(snapshot(root)), c) != ref["vis"]:
                        yield "a successful retry on the same store instance does not leave the state of the fault-free call", {}
    elif kind == "store_meta":
        if ref["outcome"][0] == "ok":
            restore(root, info["tree"])
            env.set_root(root)
            again = O.run(r.store, op, c)
            if again[0] != "ok":
                yield "store_metadata cannot be repeated on the same store instance after the failed call", {"retry": again[0]}
            elif fscen.visible(fscen.absof(snapshot(root)), c) != ref["vis"]:
                # (the retry reported success: the document must now be the one the fault-free call leaves)
                yield "a store_metadata repeated on the same store instance after the failed call reports success without storing the document", {}
        if sprobe[target][1:] != ini["probe"][target][1:]:
            yield "after the failed store_metadata the previous document version is not intact", {}


def _s(x):
    return x if isinstance(x, str) else x[0]


def _visdiff(a, b):
    out = []
    for k in a:
        if a[k] != b.get(k):
            out.append(k)
    return out


def _job(case):
    errnos = ["EIO", "ENOSPC", "EACCES"]
    return sweep(case, errnos, c13_check, probes=True)


def main(tier):
    global TIER
    TIER = tier
    rep = common.Report("C13", tier, "fault_enumeration")
    cases = fscen.CASES + fscen.THOROUGH_CASES + fscen.LISTING_CASES
    runs = 0
    classes = set()
    per = {}
    for out in pmap(_job, cases):
        runs += out["runs"]
        classes |= out["classes"]
        per["%s from %s" % (out["call"], out["state"])] = {
            "what": out["case"], "operations": out["ops"], "fault_sites": out["fault_sites"], "runs": out["runs"],
            "absorbed_faults": out["absorbed"], "runs_leaving_residue": out["residue_runs"]}
        for sig, det in out["violations"]:
            rep.violation(sig, det)
    rep.coverage.update({
        "evaluations": runs, "distinct_nontrivial": len(classes), "exhaustive": True,
        "rule": "for every call x starting state: every file-system operation of the recorded trace whose kind is create / "
                "open-for-writing / open-for-reading / rename / remove / mkdir / write / chmod / flock x errno x {one-off, "
                "persistent for that path}; distinct = (case, operation kind, outcome class, mode); stat-type probes are "
                "not fault sites",
        "cases": per,
    })
    rep.assumptions += ["one fault per call; the fault is an OSError raised by the seam instead of performing the operation",
                        "left-over temporary / '*_delete' files after a faulted call are counted, not judged"]
    return rep.finish([{"case": "store new content", "site": "rename objects/tmp -> objects/..", "errno": "ENOSPC",
                        "mode": "persistent"}])


def replay(rep):
    r = rep["replay"]
    global TIER
    case = (tuple(r["call"]), r["state"], "replay")
    fscen.configure(r.get("config"))
    c = fscen.ctx()
    root = os.path.join(common.scratch(), "fstore")
    env.install()
    run = engine_f.run_call(root, fscen.init_tree(r["state"]), fscen.P, tuple(r["call"]), c,
                            fault=(r["site"], engine_f.ERRNOS[r["errno"]], r["persistent"]))
    for i, o in enumerate(run.sites):
        print("%3d %s%s" % (i, o, "   <== fault" if i == r["site"] else ""))
    print("outcome:", run.outcome)
    print(fscen.absof(snapshot(root)).describe())
    return 1
