"""Driver shared by the engine-T checks: runs scenario jobs on a process pool, turns judged
terminal observations into violations / known findings, fills in coverage."""
import json
import multiprocessing
import os
import random

from .. import common, tscen


def _job(spec):
    return tscen.run_job(spec)


def run_scenarios(rep, specs, workers=None, time_cap=None):
    specs = [dict(s) for s in specs]
    if time_cap is None:
        time_cap = 240 if rep.tier == "quick" else 1200
    for s in specs:
        s.setdefault("time_cap", time_cap)
    rng = random.Random(common.SEED)
    rng.shuffle(specs)
    workers = min(workers or os.cpu_count() or 1, 16, max(1, len(specs)))
    ctx = multiprocessing.get_context("fork")
    results = []
    with ctx.Pool(workers, maxtasksperchild=8) as pool:
        import sys
        import time
        t0 = time.time()
        for r in pool.imap_unordered(_job, specs, chunksize=1):
            results.append(r)
            if rep.tier == "thorough":
                sys.stderr.write("[%5.0fs] %d/%d %s: %s executions%s\n" % (
                    time.time() - t0, len(results), len(specs), r["name"], r.get("executions", "?"),
                    " CAPPED " + str(r.get("capped")) if r.get("capped") else ""))
                sys.stderr.flush()
    results.sort(key=lambda r: r["name"])
    return results


def usable(rep, r):
    """False (and a violation recorded) when the scenario could not even be prepared because a preparatory call on
    the code under test failed; raises for genuine harness errors."""
    if "setup_failure" in r:
        rep.violation({"kind": "exception-from-code-under-test", "scenario": r["name"],
                       "what": "the scenario could not be prepared or driven: " + r["setup_failure"][:160]},
                      {"spec": r["spec"], "detail": r["setup_failure"]})
        return False
    if "harness_error" in r:
        raise common.HarnessError("scenario %s: %s" % (r["name"], r["harness_error"]))
    return True


def finish_t(rep, results, step_kind="step"):
    return rep.finish(accumulate_t(rep, results, step_kind))


def line_level_part(rep, specs, gran="line", shares=2, key="line_level_one_preemption", two=None):
    """Engine-L part of a check that is not otherwise an engine-T check: explore the given two-call scenarios with one
    pre-emption at every source line and report violations / coverage under `key`."""
    jobs = []
    if rep.tier == "thorough" and gran == "line":
        gran, shares = "opcode", 8  # every bytecode of the package as a pre-emption point
    for sp in specs:
        jobs += tscen.line_level(sp, gran, shares)
    # TWO pre-emptions at source-line granularity (the second at every event where another thread could run): thorough tier
    # only, for the scenarios named in `two` (some 10^5 executions each)
    for sp in specs:
        if rep.tier == "thorough" and sp["name"] in (two or ()):
            jobs += [dict(j, time_cap=2400) for j in tscen.line_level(sp, "line", 16, lbound=2)]
    results = run_scenarios(rep, jobs)
    sub = type("Sub", (), {})()
    sub.coverage = {}
    sub.violation = rep.violation
    sub.tier = rep.tier
    accumulate_t(sub, results)
    ll = sub.coverage.get("line_level_one_preemption", {})
    ll["distinct_terminal_observations"] = sub.coverage.get("distinct_terminal_observations")
    ll["scenario_names"] = sorted({sp["name"] for sp in specs})
    rep.coverage[key] = ll
    return ll


def accumulate_t(rep, results, step_kind="step"):
    cov = rep.coverage
    tot = {"executions": 0, "states": 0, "transitions": 0, "terminals": 0}
    per = {}
    vac = []
    samples = []
    results = [r for r in results if usable(rep, r)]
    ll = {"scenarios": set(), "jobs": 0, "executions": 0, "preemption_points": 0, "events_executed": 0, "capped": []}
    for r in results:
        if r["spec"].get("engine") == "L":
            ll["scenarios"].add(r["spec"]["name"])
            ll["jobs"] += 1
            ll["executions"] += r["executions"]
            ll["events_executed"] += r["transitions"]
            ll["granularity"] = r["spec"].get("gran", "line")
            if r["spec"]["chunk"][0] == 0:
                ll["preemption_points"] += r.get("preemption_points") or 0
            if r.get("second_preemption_points"):
                ll["second_preemption_points"] = ll.get("second_preemption_points", 0) + r["second_preemption_points"]
                ll["scenarios_with_two_preemptions"] = sorted(set(ll.get("scenarios_with_two_preemptions", [])) | {r["spec"]["name"]})
            if r["capped"]:
                ll["capped"].append(r["name"])
    if ll["jobs"]:
        ll["scenarios"] = len(ll["scenarios"])
        cov["line_level_one_preemption"] = ll
    for r in results:
        for k in tot:
            tot[k] += r[k]
        verd = {}
        for vd in r["verdicts"]:
            verd[vd["verdict"]] = verd.get(vd["verdict"], 0) + 1
            if vd["verdict"] == "violation" and vd["kind"] == "residue-only" and r["spec"].get("faults"):
                # a temp / marker file left behind by a call that was hit by an injected fault: counted, not judged
                cov["residue_after_faulted_calls"] = cov.get("residue_after_faulted_calls", 0) + 1
                continue
            if vd["verdict"] == "violation":
                sig = tscen.sig_of(r["spec"], vd)
                rep.violation(sig, {"spec": r["spec"], "schedule": vd["schedule"], "terminal": vd["terminal"],
                                    "kind": vd["kind"]})
        for v, ch in r["step_violations"]:
            rep.violation({"scenario": r["name"], "kind": step_kind, "what": v},
                          {"spec": r["spec"], "schedule": ch, "what": v})
        if r["spec"].get("engine") == "L":
            continue  # aggregated under line_level_one_preemption
        per[r["name"]] = {"executions": r["executions"], "states": r["states"], "transitions": r["transitions"],
                          "terminal_observations": r["terminals"], "sequential_observations": r["sequential_terminals"],
                          "verdicts": verd, "passes": r.get("passes"), "capped": r["capped"],
                          "wall_s": round(r["wall"], 1)}
        if r["terminals"] <= 1 and r["sequential_terminals"] <= 1:
            vac.append(r["name"])
        if len(samples) < 4 and r["verdicts"]:
            samples.append({"scenario": r["name"], "schedule": r["verdicts"][0]["schedule"][:60],
                            "observation": r["verdicts"][0]["terminal"]})
    cov.update({
        "scenarios": len([r for r in results if r["spec"].get("engine") != "L"]), "executions": tot["executions"], "states": tot["states"],
        "transitions": tot["transitions"], "traces_validated_against_impl": tot["executions"],
        "distinct_terminal_observations": tot["terminals"],
        "scenarios_with_single_observation": vac,
        "capped_scenarios": [r["name"] for r in results if r["capped"]],
        "exhaustive": not any(r["capped"] for r in results),
        "per_scenario": per,
    })
    return samples


def replay_schedule(rep):
    """Re-execute one recorded schedule (no exploration) and print what is observed."""
    from .. import env, engine_t, lin
    r = rep["replay"]
    env.install()
    env.STATE.list_reverse = r["spec"].get("listing") == "reverse"
    sc = tscen.make_scenario(r["spec"])
    root = os.path.join(common.scratch(), "store")
    trace = []
    ex = tscen.run_schedule(sc, root, r["schedule"], trace_out=trace)
    if r["schedule"] and r["schedule"][0] == "L":
        print("  line-level schedule: %s runs first and is pre-empted at its event %s: %s" % (
            r["schedule"][1], r["schedule"][2], ex.preempted))
    for n, op in trace:
        print("  %-3s %s" % (n, op))
    term = sc.terminal(ex, root)
    v, kind, _ = sc.judge(term, root, {})
    print(json.dumps(lin.describe_terminal(term), indent=1))
    print("verdict:", v, kind)
    return 1 if v == "violation" else 0
