"""C11 - metadata documents: faithful round trip, isolation and lifetime (engine S closure + size product)."""
import io
import os
from pathlib import Path

from .. import common, ops as O
from ..common import DEFAULT_NS, pattern
from ..specs import ModelSpec, make_store
from ._s import run_spec
from .seqreplay import replay_history


def _related_pids():
    """Two pids x = 'a' + suffix and y = 'a' such that (1) concatenations collide: x + 'c' == y + suffix + 'c', and (2) the
    SHA-256 digests of x and y share their first four hex digits, i.e. with the default layout the two pids' metadata and
    pid-reference files live under the same two upper shard directories."""
    import hashlib
    import itertools
    import string
    want = hashlib.sha256(b"a").hexdigest()[:4]
    for n in (1, 2, 3, 4):
        for t in itertools.product(string.ascii_lowercase + string.digits, repeat=n):
            sfx = "".join(t)
            if hashlib.sha256(("a" + sfx).encode()).hexdigest()[:4] == want:
                return "a" + sfx, "a", sfx
    raise AssertionError


_X, _Y, _SFX = _related_pids()


class C11Spec(ModelSpec):
    prop = "C11"
    pids = (_X, _Y)
    formats = ("c", _SFX + "c")
    init_ops = (("store", _X, "A", None), ("store", _Y, "A", None))
    docs = {"v1": b"<v1/>", "v2": pattern(3 * 4096 + 7, 9)}

    def __init__(self, tier):
        super().__init__()
        self.key_dirs = False  # the metadata code treats absent and empty directories alike; C05 thorough keeps them
        ops = []
        for pid in self.pids:
            for fmt in (None, DEFAULT_NS, "c", _SFX + "c"):
                ops.append(("store_meta", pid, fmt, "v1"))
                if tier == "thorough" or fmt in (None, "c"):
                    ops.append(("store_meta", pid, fmt, "v2"))
                ops.append(("retrieve_meta", pid, fmt))
                ops.append(("delete_meta", pid, fmt))
            ops.append(("delete", pid))
            ops.append(("store", pid, "A", None))
        self.ops = ops


def sizes_roundtrip(rep):
    """Document sizes around the read-buffer size x kinds of metadata argument."""
    from hashstore.filehashstore import FileHashStore
    root = os.path.join(common.scratch(), "c11e")
    store = FileHashStore(common.props(root))
    B = os.stat(root).st_blksize
    n = 0
    seen = set()
    for size in (0, 1, B - 1, B, B + 1, 8191, 8192, 8193, 3 * B + 7):
        data = pattern(size, size % 7)
        path = os.path.join(common.scratch(), "doc_%d.bin" % size)
        with open(path, "wb") as f:
            f.write(data)
        for kind in ("str", "Path", "file", "bytesio-buffered"):
            for fmt in (None, "fmt://x"):
                pid = "doc-%d-%s" % (size, kind)
                arg, closeme = path, None
                if kind == "Path":
                    arg = Path(path)
                elif kind == "file":
                    arg = closeme = open(path, "rb")
                elif kind == "bytesio-buffered":
                    arg = io.BufferedReader(_Named(data, path))
                try:
                    if fmt is None:
                        store.store_metadata(pid, arg)
                        got = store.retrieve_metadata(pid)
                    else:
                        store.store_metadata(pid, arg, fmt)
                        got = store.retrieve_metadata(pid, fmt)
                    b = got.read()
                    got.close()
                    ok = b == data
                    what = "round trip returned different bytes"
                except Exception as e:  # noqa: BLE001
                    ok, what = False, "raised %s" % type(e).__name__
                finally:
                    if closeme:
                        closeme.close()
                n += 1
                seen.add((size, kind, fmt is None))
                if not ok:
                    rep.violation({"kind": "roundtrip", "part": "sizes", "what": what, "arg": kind},
                                  {"size": size, "format": fmt, "arg": kind})
    rep.coverage["roundtrip_cases"] = n
    rep.coverage["roundtrip_distinct"] = len(seen)


class _Named(io.BytesIO):
    """In-memory raw stream carrying a .name, as a file-backed stream would."""
    def __init__(self, data, name):
        super().__init__(data)
        self.name = name


def same_tick_updates(rep):
    """Updates in quick succession on a file system with coarse timestamps: a document replaced by another of the SAME length
    within one timestamp tick (the layer answers every stat with the same, frozen time) must still be the one returned."""
    from hashstore.filehashstore import FileHashStore
    from .. import env
    env.install()
    env.reset_execution()
    root = os.path.join(common.scratch(), "c11-tick")
    import shutil
    shutil.rmtree(root, ignore_errors=True)
    store = FileHashStore(common.props(root))
    env.set_root(root)
    docs = {"a": b"<v status='A'/>", "b": b"<v status='B'/>", "c": pattern(8192 + 17, 1), "d": pattern(8192 + 17, 2)}
    paths = {}
    for k, v in docs.items():
        paths[k] = os.path.join(common.scratch(), "c11tick_%s.xml" % k)
        with open(paths[k], "wb") as f:
            f.write(v)
    n = 0
    env.STATE.frozen_mtime = True
    env.CUR.w = env.BaseWorker("T1")
    try:
        for pid in ("tick", "tick2"):
            for fmt in (None, "c"):
                for seq in (("a", "b"), ("a", "b", "a"), ("c", "d"), ("c", "d", "c", "d")):
                    for k in seq:
                        n += 1
                        try:
                            if fmt is None:
                                store.store_metadata(pid, paths[k])
                                got = store.retrieve_metadata(pid)
                            else:
                                store.store_metadata(pid, paths[k], fmt)
                                got = store.retrieve_metadata(pid, fmt)
                            b = got.read()
                            got.close()
                            ok, what = b == docs[k], "retrieve_metadata does not return the document stored last (same length, same timestamp tick)"
                        except Exception as e:  # noqa: BLE001
                            ok, what = False, "raised %s" % type(e).__name__
                        if not ok:
                            rep.violation({"kind": "roundtrip", "part": "same-tick", "what": what},
                                          {"pid": pid, "format": fmt, "sequence": list(seq), "at": k})
    finally:
        env.CUR.w = None
        env.STATE.frozen_mtime = False
    rep.coverage["same_tick_update_cases"] = n


def main(tier):
    rep = common.Report("C11", tier, "model_checking")
    run_spec(rep, C11Spec(tier), "closure", time_cap=120 if tier == "quick" else 3000)
    sizes_roundtrip(rep)
    same_tick_updates(rep)
    from .c18 import format_pairs
    format_pairs(rep)  # 'documents of different pairs never affect one another': all ordered pairs of a format alphabet on one pid
    rep.assumptions += ["alphabet: pids 'ab'/'a', formats omitted/explicit default/'c'/'bc' (('ab','c') and ('a','bc') "
                        "concatenate alike), documents v1 (5 bytes) / v2 (3 buffers + 7 bytes)",
                        "de-duplication ignores empty directories in this check"]
    return rep.finish(rep._samples)


def replay(rep):
    return replay_history(C11Spec("thorough"), rep)
