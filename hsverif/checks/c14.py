"""C14 - store configuration is pinned at creation (configuration pairs, complete product)."""
import itertools
import os
import shutil

from .. import common
from ..absx import Layout, abstract
from ..common import STORE_ALGOS, pattern, snapshot
from ..par import pmap

NSS = ["https://ns.dataone.org/service/types/v2.0#SystemMetadata", "ns://other"]
DEPTHS = [1, 2, 3, 4, 5]
WIDTHS = [1, 2, 3, 4]
ALGOS = list(STORE_ALGOS)
TIER = "quick"
DATA = {"x": pattern(100, 1), "y": pattern(3, 2)}


def props(path, cfg, enc=int):
    d, w, a, ns = cfg
    return {"store_path": path, "store_depth": enc(d), "store_width": enc(w), "store_algorithm": a,
            "store_metadata_namespace": ns}


def snap_parent(parent):
    return snapshot(parent)


def _creation(cfg):
    from hashstore.filehashstore import FileHashStore
    res = []
    n = 0
    classes = set()
    parent = os.path.join(common.scratch(), "c14-%d-%d-%s-%d" % (cfg[0], cfg[1], cfg[2], NSS.index(cfg[3])))
    inp = {}
    os.makedirs(parent, exist_ok=True)
    for k, v in DATA.items():
        inp[k] = os.path.join(common.scratch(), "c14in_%s_%d" % (k, os.getpid()))
        with open(inp[k], "wb") as f:
            f.write(v)
    for populated in (False, True):
        shutil.rmtree(parent, ignore_errors=True)
        os.makedirs(parent)
        path = os.path.join(parent, "store")
        s = FileHashStore(props(path, cfg))
        if populated:
            s.store_object("pid-x", inp["x"])
            s.store_object("pid-y", inp["y"])
            s.store_metadata("pid-x", inp["y"])
        before = snap_parent(parent)
        lay = Layout(cfg[0], cfg[1], cfg[2])
        others = []
        for c2 in itertools.product(DEPTHS, WIDTHS, ALGOS, NSS):
            diff = sum(1 for a, b in zip(cfg, c2) if a != b)
            if TIER == "thorough" or diff <= 2:
                others.append(c2)
        for c2 in others:
            for enc in (int, str):
                n += 1
                same = c2 == cfg
                try:
                    s2 = FileHashStore(props(path, c2, enc))
                    accepted = True
                except Exception as e:  # noqa: BLE001
                    accepted = False
                    s2 = None
                classes.add((populated, same, accepted, enc is str, tuple(a != b for a, b in zip(cfg, c2))))
                what = None
                if same and not accepted:
                    what = "reopening with the creation configuration is refused"
                elif not same and accepted:
                    what = "reopening with a different configuration is accepted"
                after = snap_parent(parent)
                if after != before and what is None:
                    what = "reopening (%s) created or modified files" % ("accepted" if accepted else "refused")
                if accepted and same and populated and what is None:
                    for pid, k in (("pid-x", "x"), ("pid-y", "y")):
                        st = s2.retrieve_object(pid)
                        if st.read() != DATA[k]:
                            what = "existing data not visible after reopening"
                        st.close()
                    a = abstract({r[len("store/"):]: b for r, b in after.items() if r.startswith("store/")}, lay,
                                 ("pid-x", "pid-y"), (cfg[3],))
                    if a.residue or any(isinstance(k, tuple) and k[0] == "\0unexplained" for k in list(a.pid_refs) + list(a.metadata)):
                        what = "tree is not explained by the creation configuration's layout"
                if what:
                    res.append(({"kind": "reopen", "what": what, "differs": [i for i, (x, y) in enumerate(zip(cfg, c2)) if x != y],
                                 "encoding": enc.__name__},
                                {"creation": list(cfg), "reopen": list(c2), "populated": populated, "diff": common.tree_diff(before, after)[:10]}))
                    # restore for the following cases
                    shutil.rmtree(parent)
                    os.makedirs(parent)
                    common.restore(parent, before)
    return n, res, classes


def _special(_):
    """Unsupported / re-spelled algorithms, missing and extra keys, non-integer strings, store data without a
    configuration file."""
    from hashstore.filehashstore import FileHashStore
    res = []
    n = 0
    base = (3, 2, "SHA-256", NSS[0])
    parent = os.path.join(common.scratch(), "c14-special")

    def fresh(populate=True):
        shutil.rmtree(parent, ignore_errors=True)
        os.makedirs(parent)
        path = os.path.join(parent, "store")
        if populate:
            s = FileHashStore(props(path, base))
            inp = os.path.join(common.scratch(), "c14s_in")
            with open(inp, "wb") as f:
                f.write(DATA["x"])
            s.store_object("pid-x", inp)
        return path

    def expect_refused(label, p, populate=True, prepare=None):
        nonlocal n
        path = fresh(populate)
        if prepare:
            prepare(path)
        before = snap_parent(parent)
        n += 1
        p = dict(p)
        p["store_path"] = path
        try:
            FileHashStore(p)
            res.append(({"kind": "special", "what": "accepted: " + label}, {"props": {k: repr(v) for k, v in p.items()}}))
        except Exception:  # noqa: BLE001
            pass
        after = snap_parent(parent)
        if after != before:
            res.append(({"kind": "special", "what": "refused call created or modified files: " + label},
                        {"diff": common.tree_diff(before, after)[:10]}))

    good = props("x", base)
    for algo in ("sha256", "SHA256", "SHA-224", "BLAKE2B", "md5", "sha-256", "SHA3-256", "", "SHA-257"):
        # on a new path nothing may be created, on an existing store nothing may change
        expect_refused("unsupported or re-spelled store algorithm %r on a new path" % algo, dict(good, store_algorithm=algo), False)
        expect_refused("unsupported or re-spelled store algorithm %r on an existing store" % algo, dict(good, store_algorithm=algo))
    for k in ("store_depth", "store_width", "store_algorithm", "store_metadata_namespace"):
        p = dict(good)
        del p[k]
        expect_refused("missing key %s" % k, p)
        expect_refused("missing key %s (new path)" % k, p, False)
        expect_refused("None value for %s" % k, dict(good, **{k: None}))
    for k in ("store_depth", "store_width"):
        for bad in ("abc", "", "3.5", "2 ", [3]):
            if bad == "2 ":
                continue  # int('2 ') is 2: integer-like
            expect_refused("non-integer %s=%r" % (k, bad), dict(good, **{k: bad}))
            expect_refused("non-integer %s=%r (new path)" % (k, bad), dict(good, **{k: bad}), False)
    # values of another TYPE that are not the creation value: True is the integer 1, not 'whatever is there'
    for k in ("store_depth", "store_width"):
        for bad in (True, 1.0, b"1", 1 + 0j):
            expect_refused("%s=%r (%s) for a store created with another value" % (k, bad, type(bad).__name__), dict(good, **{k: bad}))
    for k in ("store_algorithm", "store_metadata_namespace"):
        for bad in (True, 1, ["SHA-256"], b"SHA-256"):
            expect_refused("%s=%r (%s)" % (k, bad, type(bad).__name__), dict(good, **{k: bad}))
    for sub in ("objects", "metadata", "refs"):
        def prep(path, sub=sub):
            os.remove(os.path.join(path, "hashstore.yaml"))
            for other in ("objects", "metadata", "refs"):
                if other != sub:
                    shutil.rmtree(os.path.join(path, other))
        expect_refused("directory holds %s/ but no hashstore.yaml" % sub, good, True, prep)
    for k in ("store_algorithm", "store_metadata_namespace"):
        for variant in (lambda v: v + "\n", lambda v: " " + v, lambda v: v + " ", lambda v: v.lower(), lambda v: v + "/"):
            expect_refused("%s differing from the pinned value only by whitespace / case / a trailing character" % k,
                           dict(good, **{k: variant(good[k])}))
    # a configuration file that lost a key does not pin the store any more: it must be refused
    import re
    for k in ("store_depth", "store_width", "store_algorithm", "store_metadata_namespace"):
        def prep(path, k=k):
            y = os.path.join(path, "hashstore.yaml")
            with open(y) as f:
                txt = f.read()
            with open(y, "w") as f:
                f.write(re.sub(r"(?m)^%s:.*\n" % k, "", txt))
        other = dict(good)
        other[k] = {"store_depth": 4, "store_width": 3, "store_algorithm": "MD5", "store_metadata_namespace": "ns://z"}[k]
        expect_refused("hashstore.yaml lacks %s, reopened with another value for it" % k, other, True, prep)
        expect_refused("hashstore.yaml lacks %s, reopened with the creation values" % k, good, True, prep)
    # a configuration file that lost its BODY (interrupted write, editor accident) pins nothing any more: opening the
    # populated store with values other than the creation values must be refused and must not touch anything
    def body(kind):
        def prep(path):
            y = os.path.join(path, "hashstore.yaml")
            with open(y) as f:
                txt = f.read()
            keep = {"empty": "", "comments only": "".join(l for l in txt.splitlines(True) if l.lstrip().startswith("#")) or "# hashstore\n",
                    "first half": txt[:len(txt) // 2], "first line only": txt.splitlines(True)[0],
                    "not a mapping": "- 3\n- 2\n", "null document": "null\n", "whitespace": "\n\n   \n"}[kind]
            with open(y, "w") as f:
                f.write(keep)
        return prep
    for kind in ("empty", "comments only", "first half", "first line only", "not a mapping", "null document", "whitespace"):
        for k, v in (("store_depth", 2), ("store_width", 4), ("store_algorithm", "SHA-512"), ("store_metadata_namespace", "ns://z")):
            expect_refused("hashstore.yaml damaged (%s), populated store reopened with another %s" % (kind, k),
                           dict(good, **{k: v}), True, body(kind))
    # extra keys are harmless: accepted with equal values, and nothing changes
    path = fresh()
    before = snap_parent(parent)
    n += 1
    try:
        FileHashStore(dict(props(path, base), extra_key="whatever"))
    except Exception as e:  # noqa: BLE001
        res.append(({"kind": "special", "what": "equal configuration with an extra key refused"}, {"err": str(e)[:100]}))
    if snap_parent(parent) != before:
        res.append(({"kind": "special", "what": "reopening with an extra key modified files"}, {}))
    return n, res, {("special", n)}


NS_ALPHABET = [
    "https://ns.dataone.org/service/types/v2.0#SystemMetadata", "ns://other", "http://ns.test/v1 # sysmeta", "key: value", "a: b: c",
    " leading", "trailing ", "'single'", '"double"', "it's", "1", "1.0", "007", "1e3", "true", "True", "null", "~", "yes", "no",
    "[a, b]", "{a: b}", "- item", "? q", "| block", "> folded", "&anchor", "*alias", "!tag", "%TAG", "@at", "`tick`", "#hash", "a#b",
    "---", "...", "\u00e9\u00e8 m\u00e9ta", "\u6f22\u5b57", "tab\there", "back\\slash", "x" * 300, "2001-12-14", "0x1F", "1_000", ":", "-", "a,b", "",
]


def _namespaces(k):
    """Store created with one namespace of NS_ALPHABET (strings that are significant to a YAML parser or that a YAML writer
    must quote) and re-opened with EVERY namespace of the alphabet: accepted exactly for the creation value, nothing
    created or modified either way, and the default-format document stored before stays retrievable."""
    from hashstore.filehashstore import FileHashStore
    ns = NS_ALPHABET[k]
    res = []
    n = 0
    parent = os.path.join(common.scratch(), "c14-ns-%d" % k)
    shutil.rmtree(parent, ignore_errors=True)
    os.makedirs(parent)
    path = os.path.join(parent, "store")
    inp = os.path.join(common.scratch(), "c14ns_in_%d" % os.getpid())
    with open(inp, "wb") as f:
        f.write(DATA["x"])
    base = (3, 2, "SHA-256", ns)
    try:
        s = FileHashStore(props(path, base))
        s.store_object("pid-x", inp)
        s.store_metadata("pid-x", inp)
    except Exception as e:  # noqa: BLE001
        if ns == "":
            return 1, [], set()  # an empty namespace may be refused at creation
        return 1, [({"kind": "namespace", "what": "a store cannot be created / used with this namespace (%s)" % type(e).__name__},
                    {"namespace": ns})], set()
    before = snap_parent(parent)
    for ns2 in NS_ALPHABET:
        n += 1
        try:
            s2 = FileHashStore(props(path, (3, 2, "SHA-256", ns2)))
            accepted = True
        except Exception:  # noqa: BLE001
            accepted, s2 = False, None
        what = None
        if ns2 == ns and not accepted:
            what = "reopening with the creation namespace is refused"
        elif ns2 != ns and accepted:
            what = "reopening with a different namespace is accepted"
        after = snap_parent(parent)
        if what is None and after != before:
            what = "reopening (%s) created or modified files" % ("accepted" if accepted else "refused")
        if what is None and accepted:
            try:
                st = s2.retrieve_metadata("pid-x")
                if st.read() != DATA["x"]:
                    what = "the default-format document is not the one stored before reopening"
                st.close()
            except Exception as e:  # noqa: BLE001
                what = "the default-format document is not retrievable after reopening (%s)" % type(e).__name__
        if what:
            res.append(({"kind": "namespace", "what": what}, {"creation_namespace": ns, "reopen_namespace": ns2}))
            shutil.rmtree(parent)
            os.makedirs(parent)
            common.restore(parent, before)
    shutil.rmtree(parent, ignore_errors=True)
    return n, res, {("ns", k)}


def main(tier):
    global TIER
    TIER = tier
    rep = common.Report("C14", tier, "exploration")
    cfgs = list(itertools.product(DEPTHS, WIDTHS, ALGOS, NSS))
    n = 0
    classes = set()
    for cnt, res, cl in pmap(_creation, cfgs):
        n += cnt
        classes |= cl
        for sig, det in res:
            rep.violation(sig, det)
    for cnt, res, cl in pmap(_special, [0]):
        n += cnt
        nspecial = cnt
        for sig, det in res:
            rep.violation(sig, det)
    nns = 0
    for cnt, res, cl in pmap(_namespaces, list(range(len(NS_ALPHABET)))):
        n += cnt
        nns += cnt
        for sig, det in res:
            rep.violation(sig, det)
    rep.coverage["namespace_pairs"] = nns
    nontrivial = {c for c in classes if not c[1]}
    rep.coverage.update({
        "evaluations": n, "distinct_nontrivial": len(nontrivial) + nspecial, "exhaustive": True,
        "creation_configurations": len(cfgs), "special_cases": nspecial,
        "rule": "creation configuration (depth 1-5 x width 1-4 x 5 algorithms x 2 namespaces) x reopening configuration "
                "(%s) x {int, str} encoding x {empty, populated}; oracle: accepted iff all four values equal; refused or "
                "accepted, the snapshot of the store's PARENT directory must be unchanged; distinct non-trivial = (populated, "
                "accepted, encoding, which coordinates differ) for differing configurations, plus the special cases "
                "(unsupported / re-spelled algorithms, missing / None / extra keys, non-integers, store data without "
                "hashstore.yaml); plus all ordered pairs (creation, reopening) of a %d-string namespace alphabet (strings a YAML "
                "parser reads as something else or a YAML writer must quote)" % (("all 200" if tier == "thorough" else "all that differ in at most 2 coordinates"), len(NS_ALPHABET)),
    })
    return rep.finish([{"creation": [3, 2, "SHA-256", NSS[0]], "reopen": [3, "2", "SHA-256", NSS[1]]}])


def replay(rep):
    print(rep["replay"])
    return 1
