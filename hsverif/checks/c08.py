"""C08 - calls always terminate and never leave an identifier locked.
Part a (engine T): lock-heavy scenarios (same pid, same cid, same document, two waiters on one
condition); verdict per execution: no state without an enabled thread, all lists empty at the end,
follow-up calls on every identifier complete.
Part b (engine F): a fault at every fault site of every call; afterwards the lists are empty and a
follow-up call on the same identifiers completes."""
import os

from .. import common, env, engine_f, fscen, ops as O
from ..common import DEFAULT_NS
from ..par import pmap
from ._t import run_scenarios, replay_schedule
from .c13 import sweep, _fresh

S1A = ("store", "p1", "A", None)
S2A = ("store", "p2", "A", None)
S3A = ("store", "p3", "A", None)
D1 = ("delete", "p1")
D2 = ("delete", "p2")
T1A = ("tag", "p1", "A")
T2A = ("tag", "p2", "A")
T3A = ("tag", "p3", "A")
XA = ("dii", "A", "badsize")
M1 = ("store_meta", "p1", None, "v1")
M2 = ("store_meta", "p1", None, "v2")
DA = ("delete_meta", "p1", None)
DF = ("delete_meta", "p1", DEFAULT_NS)
FOLLOW = [("delete", "p1"), ("store", "p1", "A", None), ("store", "p2", "B", None), ("store_meta", "p1", None, "v1"),
          ("delete_meta", "p1", None), ("delete", "p1"), ("delete", "p2"), ("dii", "A", "badsize")]


def scenarios(tier, mode="th"):
    out = []

    def add(name, init, threads, bound=None):
        out.append({"name": name + (" [mp]" if mode == "mp" else ""), "init": init, "threads": threads,
                    "pids": ("p1", "p2", "p3"), "formats": (DEFAULT_NS,), "judge": "liveness", "followups": FOLLOW,
                    "bound": bound, "mode": mode, "split": mode == "mp"})
    add("d1||d1 (same pid, waiter)", "p1A", {"T1": [D1], "T2": [D1]})
    add("s1A||d1 (same pid)", "p1A", {"T1": [S1A], "T2": [D1]})
    add("t1A||t2A (same cid)", "Aunref", {"T1": [T1A], "T2": [T2A]})
    add("t1A||t1A (same pid)", "Aunref", {"T1": [T1A], "T2": [T1A]})
    add("t1A||d1 (tag and delete of a bound pid)", "p1A", {"T1": [T1A], "T2": [D1]})
    add("t1A||d1 (tag and delete of an unbound pid)", "Aunref", {"T1": [T1A], "T2": [D1]})
    add("t2A||d1 (tag and delete on one cid)", "p1A", {"T1": [T2A], "T2": [D1]})
    add("d1||xA (same cid)", "p1A", {"T1": [D1], "T2": [XA]})
    add("M1||M2 (same document)", "meta", {"T1": [M1], "T2": [M2]})
    add("M1||Da (same document)", "meta", {"T1": [M1], "T2": [DA]})
    add("Df||Da (same document)", "meta", {"T1": [DF], "T2": [DA]})
    add("d1||M1 (delete_object deletes metadata)", "p1A+meta", {"T1": [D1], "T2": [M1]})
    # two waiters on one condition: the notify() wake-up choice matters
    add("d1||d1||d1 (two waiters on the pid condition)", "p1A", {"T1": [D1], "T2": [D1], "T3": [D1]}, 2)
    add("t1A||t2A||t3A (two waiters on the cid condition)", "Aunref", {"T1": [T1A], "T2": [T2A], "T3": [T3A]}, 2)
    add("M1||M2||M1 (two waiters on the document condition)", "meta", {"T1": [M1], "T2": [M2], "T3": [M1]}, 2)
    # FOUR calls, two identifiers: two waiters for DIFFERENT identifiers on one shared condition - a wake-up that reaches the
    # wrong waiter must be replaced by a later one (pre-emption bound 2; one scenario per condition family)
    XB = ("dii", "B", "badsize")
    D2F = ("delete_meta", "p2", DEFAULT_NS)
    add("d1||d1||d2||d2 (pid condition, two identifiers)", "empty", {"T1": [D1], "T2": [D1], "T3": [D2], "T4": [D2]}, 2)
    add("xA||xA||xB||xB (cid condition, two identifiers)", "ABunref", {"T1": [XA], "T2": [XA], "T3": [XB], "T4": [XB]}, 2)
    add("Df(p1)||Df(p1)||Df(p2)||Df(p2) (document condition, two identifiers)", "empty",
        {"T1": [DF], "T2": [DF], "T3": [D2F], "T4": [D2F]}, 2)
    # a READ-ONLY call between two writers of one identifier (pre-emption bound 2): a reader that waits must hand the wake-up
    # on, a reader that does not wait must not disturb the hand-over between the writers
    R1 = ("retrieve", "p1")
    H1 = ("hexdigest", "p1", "sha256")
    RM = ("retrieve_meta", "p1", None)
    readers = [("s1A||R1||d1", "empty", S1A, R1, D1), ("s1A||R1||d1", "p1A", S1A, R1, D1), ("d1||R1||d1", "p1A", D1, R1, D1),
               ("d1||H1||s1A", "p1A", D1, H1, S1A), ("t1A||R1||d1", "Aunref", T1A, R1, D1),
               ("M1||RM||M2", "meta", M1, RM, M2), ("M1||RM||Da", "meta", M1, RM, DA), ("Df||RM||M1", "meta", DF, RM, M1)]
    if tier == "thorough":
        for w1 in (("s1A", S1A), ("d1", D1), ("t1A", T1A)):
            for w2 in (("s1A", S1A), ("d1", D1), ("t1A", T1A)):
                for r_ in (("R1", R1), ("H1", H1)):
                    for st in ("p1A", "Aunref"):
                        readers.append(("%s||%s||%s" % (w1[0], r_[0], w2[0]), st, w1[1], r_[1], w2[1]))
        for w1 in (("M1", M1), ("Da", DA), ("Df", DF)):
            for w2 in (("M2", M2), ("Da", DA), ("Df", DF)):
                readers.append(("%s||RM||%s" % (w1[0], w2[0]), "meta", w1[1], RM, w2[1]))
    seen_r = set()
    for nm, st, a, b, c_ in readers:
        if (nm, st) in seen_r:
            continue
        seen_r.add((nm, st))
        add("%s from %s (reader between two writers)" % (nm, st), st, {"T1": [a], "T2": [b], "T3": [c_]}, 2)
    if tier == "thorough":
        add("s1A||d1||s2B||d2 (pid condition, two identifiers)", "empty",
            {"T1": [S1A], "T2": [D1], "T3": [("store", "p2", "B", None)], "T4": [D2]}, 2)
        add("t1A||t2A||t3B||t4B (cid and reference conditions, two identifiers)", "empty",
            {"T1": [T1A], "T2": [T2A], "T3": [("tag", "p3", "B")], "T4": [("tag", "p4", "B")]}, 2)
        add("M(p1)||M(p1)||M(p2)||M(p2) (document condition, two identifiers)", "empty",
            {"T1": [M1], "T2": [M2], "T3": [("store_meta", "p2", None, "v0")], "T4": [("store_meta", "p2", None, "v1")]}, 2)
        add("s1A||s2A (same cid)", "empty", {"T1": [S1A], "T2": [S2A]})
        add("d1||d2 (same cid)", "p1A,p2A", {"T1": [D1], "T2": [D2]})
        add("s1A||s2A||s3A (two waiters on the cid condition)", "empty", {"T1": [S1A], "T2": [S2A], "T3": [S3A]}, 2)
        add("t1A||t2A||d1", "Aunref", {"T1": [T1A], "T2": [T2A], "T3": [D1]}, 2)
        add("d1||d2||xA", "p1A,p2A", {"T1": [D1], "T2": [D2], "T3": [XA]}, 2)
        add("M1||Da||Df", "meta", {"T1": [M1], "T2": [DA], "T3": [DF]}, 2)
        add("s1A;d1||d1;s1A", "empty", {"T1": [S1A, D1], "T2": [D1, S1A]})
        add("d1||d1||d1 (bound 3)", "p1A", {"T1": [D1], "T2": [D1], "T3": [D1]}, 3)
    return out


def faulted_scenarios(tier):
    """One injected I/O error in one of two overlapping calls ('whether the calls succeed, are rejected or fail with
    an I/O error part-way'): every fault-site class of T1's call x every interleaving with T2's call."""
    from .. import tscen
    out = []
    M1F = ("store_meta", "p1", "f2", "v1")
    bases = [("t1A||t2A", "Aunref", [T1A], [T2A]), ("M1||M2", "meta", [M1], [M2]), ("d1||t2A", "p1A", [D1], [T2A]),
             # the failing call is a delete-all walking TWO documents while a store of one of them waits / slips in between
             ("Da||M1", "meta2", [DA], [M1]), ("Da||M1f", "meta2", [DA], [M1F]),
             # the failing call is a delete_if_invalid_object (invalid data) on an unreferenced object a store is about to bind
             ("xA||s1A", "Aunref", [XA], [S1A])]
    if tier == "thorough":
        bases += [("d1||d2", "p1A,p2A", [D1], [D2]), ("M1||Da", "meta", [M1], [DA])]
    for name, init, a, b in bases:
        spec = {"name": name, "init": init, "threads": {"T1": a, "T2": b}, "pids": ("p1", "p2", "p3"),
                "formats": (DEFAULT_NS, "f2") if init == "meta2" else (DEFAULT_NS,), "judge": "liveness", "followups": FOLLOW}
        seen = set()
        for k, occ in tscen.fault_classes(spec, "T1"):
            if (k, occ) in seen:
                continue
            seen.add((k, occ))
            # (a one-off rename error is absorbed by shutil.move's copy fallback: for the delete-all bases the persistent
            # variant, which makes the move itself fail, is part of the quick tier too)
            for persistent in ((False, True) if tier == "thorough" or name.startswith("Da||") else (False,)):
                s = dict(spec, faults={"T1": (k, occ, "EIO", persistent)})
                s["name"] = "%s from %s + %s EIO at T1's %s#%d" % (name, init, "persistent" if persistent else "one-off", k, occ)
                out.append(s)
    # the object move fails for good while the other thread places the same object
    out.append({"name": "s1A||s2A from empty + persistent EIO at T1's object move", "init": "empty",
                "threads": {"T1": [S1A], "T2": [S2A]}, "pids": ("p1", "p2", "p3"), "formats": (DEFAULT_NS,),
                "judge": "liveness", "followups": FOLLOW,
                "faults": {"T1": ("rename:rename:objects/tmp:objects", 0, "EIO", True)}})
    return out


def c08_check(info):
    r = info["run"]
    if any(r.locked.values()):
        yield "an identifier is left in a locked list after the call returned", {"lists": r.locked}
    if r.shim_held:
        yield "a lock is left held after the call returned", {"locks": r.shim_held}
    # follow-up calls on the same identifiers, on the SAME instance, must complete
    op = info["op"]
    env.set_root(info["root"])
    target = op[1] if op[0] in ("store", "tag", "delete", "store_meta", "delete_meta") else "p"
    follow = [("delete", target), ("store", target, "A", None), ("store_meta", target, None, "v1"),
              ("delete_meta", target, None), ("dii", "A", "badsize"), ("delete", target)]
    for f in follow:
        out = O.run(r.store, f, info["ctx"])
        if out[0] == "RuntimeError":
            yield "a follow-up call on the same identifier blocks", {"followup": O.name(f), "msg": out[1]}
            break


def _fjob(case):
    return sweep(case, ["EIO"], c08_check, probes=True)


def main(tier):
    rep = common.Report("C08", tier, "model_checking")
    specs = scenarios(tier, "th") + faulted_scenarios(tier)
    results = run_scenarios(rep, specs)
    tot = {"executions": 0, "states": 0, "transitions": 0, "terminals": 0}
    per = {}
    for r in results:
        from ._t import usable
        if not usable(rep, r):
            continue
        for k in tot:
            tot[k] += r[k]
        per[r["name"]] = {"executions": r["executions"], "states": r["states"], "terminal_observations": r["terminals"],
                          "capped": r["capped"]}
        for vd in r["verdicts"]:
            if vd["verdict"] == "violation":
                t = vd["terminal"]
                rep.violation({"scenario": r["name"], "part": "interleavings", "kind": vd["kind"],
                               "locked": t.get("locked"), "deadlock": t.get("deadlock"),
                               "blocked_followups": [f for f in t.get("followups", []) if f[1] == "RuntimeError"]},
                              {"spec": r["spec"], "schedule": vd["schedule"], "terminal": t, "kind": vd["kind"]})
    fruns = 0
    fper = {}
    for out in pmap(_fjob, fscen.CASES + fscen.THOROUGH_CASES):
        fruns += out["runs"]
        fper["%s from %s" % (out["call"], out["state"])] = {"fault_sites": out["fault_sites"], "runs": out["runs"]}
        for sig, det in out["violations"]:
            sig = dict(sig)
            sig["part"] = "faults"
            rep.violation(sig, det)
    rep.coverage.update({
        "states": tot["states"], "transitions": tot["transitions"],
        "traces_validated_against_impl": tot["executions"] + fruns,
        "scenarios": len(results), "executions": tot["executions"], "terminal_observations": tot["terminals"],
        "faulted_runs": fruns, "exhaustive": not any(r["capped"] for r in results),
        "per_scenario": per, "fault_cases": fper,
    })
    rep.assumptions += ["deadlock = a state in which some thread has not finished and no thread is enabled under the "
                        "cooperative lock / condition / flock semantics",
                        "triples are explored with pre-emption bound 2 (thorough: one with bound 3)",
                        "multiprocessing-mode variants of these scenarios are run by the C16 check"]
    return rep.finish([{"scenario": results[0]["name"], "executions": results[0]["executions"]}])


def replay(rep):
    if "schedule" in rep["replay"]:
        return replay_schedule(rep)
    from .c13 import replay as r13
    return r13(rep)
