"""C16 - multiprocessing mode behaves identically and excludes across processes.
Part a (engine S): every transition of the C05 / C11 explorations is applied in both
synchronisation modes; outcome and resulting tree must be equal (and equal to the model).
Part b (engine T): C07 / C08 / C12 scenarios through the multiprocessing code paths, every
'process' being a controlled thread working on its own copy of the instance (plain attributes
private, the _mp primitives shared - the address-space picture after fork()).
Part c (conformance, sampled, not deciding): real forked processes with the real primitives."""
import os

from .. import common, env, ops as O
from ..common import DEFAULT_NS
from ._s import run_spec
from ._t import run_scenarios, replay_schedule
from . import c05, c07, c08, c11, c12
from .seqreplay import replay_history


def differential(base):
    class Diff(base):
        prop = "C16"

        def setup(self):
            super().setup()
            env.install()  # Manager().list() / Lock / Condition of the package become the cooperative shims

        def transition(self, root, tree, aux, op):
            self.env = {"USE_MULTIPROCESSING": "False"}
            t_th, aux_th, viol_th, obs_th = super().transition(root, tree, aux, op)
            self.env = {"USE_MULTIPROCESSING": "True"}
            t_mp, aux_mp, viol_mp, obs_mp = super().transition(root, tree, aux, op)
            viol = []
            if obs_th != obs_mp:
                viol.append(({"kind": "mode-differential", "op": op[0],
                              "what": "outcome %s in threading mode, %s in multiprocessing mode" % (obs_th, obs_mp)},
                             {"call": O.name(op)}))
            elif common.tree_key(t_th) != common.tree_key(t_mp):
                viol.append(({"kind": "mode-differential", "op": op[0], "what": "the two modes leave different trees"},
                             {"call": O.name(op), "diff": common.tree_diff(t_th, t_mp)}))
            for sig, det in viol_mp:
                sig = dict(sig)
                sig["mode"] = "mp"
                viol.append((sig, det))
            for sig, det in viol_th:
                sig = dict(sig)
                sig["mode"] = "th"
                viol.append((sig, det))
            return t_th, aux_th, viol, obs_th
    return Diff


def mp_scenarios(tier):
    out = []
    pick7 = {"d1||s2A from p1A", "d1||s1A from p1A", "d1||t1A from empty", "t1A||t2A from Aunref", "d1||d1 from p1A",
             "d1||xA from p1A", "s1A||s1A from empty", "s1A||t1A from Aunref", "t1A||t1B from empty", "s1A||xA from Aunref",
             # a failing call beside a call on OTHER identifiers: its roll-back reads the shared lists while the other process
             # changes them (every access to a Manager list is a round trip of its own)
             "tag(p1,S1)||tag(p2,S2) pristine [depth 1 width 1] + persistent EIO at T1's refs/cids",
             "tag(p1,S1)||tag(p2,S2) pristine [depth 1 width 1] + persistent EIO at T1's refs/pids"}
    for s in c07.scenarios("quick" if tier == "quick" else "quick"):
        if s.get("engine") == "L":
            continue  # line-level pre-emption is about memory shared by threads of one process; forked processes share none
        if s.get("faults") and "EIO at T1's" in s["name"] and "one-off EIO at T1's" in s["name"]:
            continue  # the per-class fault sweep runs in both modes through the fault differential below
        if tier == "thorough" or s["name"] in pick7:
            s = dict(s, mode="mp", split=True)
            s["name"] += " [mp]"
            out.append(s)
    pick12 = {"M1||M2 doc present", "M1||Da doc present", "Df||Da doc present", "M2||R doc present", "M1||DO doc present",
              "Da||DO doc present", "M1||M2 doc absent", "Da||Da doc present"}
    for s in c12.scenarios("quick"):
        if s.get("engine") == "L" or s.get("faults"):
            continue
        if tier == "thorough" or s["name"] in pick12:
            s = dict(s, mode="mp", split=True)
            s["name"] += " [mp]"
            out.append(s)
    for s in c08.scenarios("quick", "mp"):
        if tier != "thorough" and "reader between two writers" in s["name"] and not (
                s["name"].startswith("d1||R1||d1") or s["name"].startswith("M1||RM||M2")):
            continue  # quick tier: one reader triple per condition family
        if tier == "thorough" or "||" in s["name"] and s["name"].count("||") == 2 or "same pid" in s["name"]:
            out.append(s)
    return out


def _fault_differential(case):
    """Single I/O faults in both synchronisation modes: outcome class and API-visible state must agree."""
    from .c13 import sweep
    a, b = [], []
    sweep(case, ["EIO"], lambda info: [], "th", a)
    sweep(case, ["EIO"], lambda info: [], "mp", b)
    res = []
    if len(a) != len(b):
        res.append(({"kind": "fault-differential", "case": case[2], "what": "the two modes perform different operation sequences"}, {}))
    for x, y in zip(a, b):
        if x != y:
            what = "outcome %s in threading mode, %s in multiprocessing mode" % (x[3], y[3]) if x[3] != y[3] else \
                "same outcome but different store states in the two modes"
            res.append(({"kind": "fault-differential", "case": case[2], "site": x[0], "mode": "persistent" if x[2] else "one-off",
                         "what": what}, {"call": list(case[0]), "state": case[1], "th": x[:4], "mp": y[:4]}))
    return len(a), res


REAL_MP = r'''
import os, sys, multiprocessing, hashlib, logging, time
logging.disable(logging.CRITICAL)
os.environ["USE_MULTIPROCESSING"] = "True"
sys.path.insert(0, sys.argv[2] + "/src")
from hashstore.filehashstore import FileHashStore
root = sys.argv[1]
data = root + "-in.bin"
open(data, "wb").write(b"A" * 5000)
store = FileHashStore(dict(store_path=root, store_depth=3, store_width=2, store_algorithm="SHA-256",
                           store_metadata_namespace="ns://x"))
assert store.use_multiprocessing
cid = hashlib.sha256(b"A" * 5000).hexdigest()
store.store_object(None, data)
def work(i):
    n = 0
    for k in range(int(sys.argv[3])):
        pid = "p%d" % ((i + k) % 2)
        for call in (lambda: store.tag_object(pid, cid), lambda: store.store_metadata(pid, data),
                     lambda: store.delete_object(pid), lambda: store.store_object(pid, data),
                     lambda: store.delete_metadata(pid), lambda: store.delete_object(pid)):
            try:
                call()
            except Exception:
                pass
            n += 1
    return n
ctx = multiprocessing.get_context("fork")
with ctx.Pool(4) as pool:
    res = pool.map(work, range(4))
lists = [list(store.object_locked_pids_mp), list(store.object_locked_cids_mp), list(store.reference_locked_pids_mp),
         list(store.metadata_locked_docs_mp)]
print("CALLS", sum(res), "LOCKED", lists)
sys.exit(3 if any(lists) else 0)
'''


REAL_MP_LATE_FORK = r'''
import os, sys, multiprocessing, hashlib, logging, time, collections
logging.disable(logging.CRITICAL)
os.environ["USE_MULTIPROCESSING"] = "True"
sys.path.insert(0, sys.argv[2] + "/src")
from hashstore.filehashstore import FileHashStore
root = sys.argv[1]
data = root + "-in.bin"
open(data, "wb").write(b"A" * 5000)
store = FileHashStore(dict(store_path=root, store_depth=3, store_width=2, store_algorithm="SHA-256",
                           store_metadata_namespace="ns://x"))
cid = hashlib.sha256(b"A" * 5000).hexdigest()
store.store_object(None, data)
def work(i):
    out = []
    pid = "p%d" % (i % 2)
    for call in (lambda: store.tag_object(pid, cid), lambda: store.store_metadata(pid, data),
                 lambda: store.delete_object(pid), lambda: store.store_object(pid, data),
                 lambda: store.delete_metadata(pid), lambda: store.delete_object(pid)):
        try:
            call()
        except Exception as e:
            m = type(e).__module__ or ""
            if not m.startswith("hashstore") and not isinstance(e, OSError):
                out.append("%s: %s" % (type(e).__name__, str(e)[:80]))
    return out
ctx = multiprocessing.get_context("fork")
with ctx.Pool(4, maxtasksperchild=1) as pool:
    res = pool.map(work, range(int(sys.argv[3])), chunksize=1)
bad = collections.Counter(x for r in res for x in r)
lists = [list(store.object_locked_pids_mp), list(store.object_locked_cids_mp), list(store.reference_locked_pids_mp), list(store.metadata_locked_docs_mp)]
print("TASKS", len(res), "INTERNAL", dict(bad), "LOCKED", lists)
sys.exit(3 if any(lists) else (4 if bad else 0))
'''


def real_processes(rep, tier):
    """Part c (conformance, sampled): real forked workers with the REAL multiprocessing primitives contend on two
    shared pids and one cid.  Only termination and 'nothing left locked' are judged (a real run is always a genuine
    execution, so a hang here is a true violation; silence proves nothing)."""
    import subprocess
    import sys
    d = os.path.join(common.scratch(), "c16-real")
    os.makedirs(d, exist_ok=True)
    rounds = "25" if tier == "quick" else "120"
    import signal
    proc = subprocess.Popen([sys.executable, "-c", REAL_MP, os.path.join(d, "store"), common.REPO, rounds],
                            stdout=subprocess.PIPE, stderr=subprocess.PIPE, text=True, start_new_session=True)
    try:
        out, err = proc.communicate(timeout=90 if tier == "quick" else 400)
    except subprocess.TimeoutExpired:
        os.killpg(proc.pid, signal.SIGKILL)  # the whole session: pool workers and Manager servers
        proc.communicate()
        rep.violation({"kind": "real-processes", "what": "forked worker processes in multiprocessing mode did not terminate"},
                      {"rounds": rounds})
        rep.coverage["real_process_run"] = "timed out"
        return

    class R:
        pass
    r = R()
    r.stdout, r.stderr, r.returncode = out, err, proc.returncode
    rep.coverage["real_process_run"] = (r.stdout.strip().splitlines() or ["?"])[-1][:200]
    if r.returncode == 3:
        rep.violation({"kind": "real-processes", "what": "an identifier was left locked after forked workers finished"},
                      {"out": r.stdout[-300:]})
    elif r.returncode != 0:
        rep.violation({"kind": "real-processes", "what": "the multiprocessing-mode run with forked workers failed"},
                      {"err": r.stderr[-600:]})
    # second run: worker processes are replaced after every task (Pool(maxtasksperchild=1)), so new processes are FORKED WHILE
    # others are inside critical sections; judged: termination, nothing left locked, and no exception that is neither one
    # of the package's own classes nor an OSError (an internal error such as list.remove(x) of an entry somebody else removed)
    import shutil
    shutil.rmtree(os.path.join(d, "store2"), ignore_errors=True)
    tasks = "60" if tier == "quick" else "400"
    proc = subprocess.Popen([sys.executable, "-c", REAL_MP_LATE_FORK, os.path.join(d, "store2"), common.REPO, tasks],
                            stdout=subprocess.PIPE, stderr=subprocess.PIPE, text=True, start_new_session=True)
    try:
        out, err = proc.communicate(timeout=90 if tier == "quick" else 400)
    except subprocess.TimeoutExpired:
        os.killpg(proc.pid, signal.SIGKILL)
        proc.communicate()
        rep.violation({"kind": "real-processes", "what": "worker processes forked while others hold identifiers did not terminate"},
                      {"tasks": tasks})
        rep.coverage["real_process_run_late_fork"] = "timed out"
        return
    rep.coverage["real_process_run_late_fork"] = (out.strip().splitlines() or ["?"])[-1][:200]
    if proc.returncode == 3:
        rep.violation({"kind": "real-processes", "what": "an identifier was left locked after late-forked workers finished"},
                      {"out": out[-300:]})
    elif proc.returncode == 4:
        rep.violation({"kind": "real-processes", "what": "an internal error (neither a hashstore exception nor an OSError) escaped a "
                                                          "call while worker processes were being forked"}, {"out": out[-400:]})
    elif proc.returncode != 0:
        rep.violation({"kind": "real-processes", "what": "the late-fork multiprocessing-mode run failed"}, {"err": err[-600:]})


def _mode_job(order):
    """'With USE_MULTIPROCESSING=True set before the store is initialised': the mode belongs to the store that is being
    initialised - also when another store (on the same directory or another one) was initialised in this interpreter
    before with the other setting.  Observation through the layer: which kind of condition objects the instance's
    store_object actually acquires."""
    import os
    from hashstore.filehashstore import FileHashStore
    env.install()
    env.reset_execution()
    base = os.path.join(common.scratch(), "c16-mode")
    import shutil
    shutil.rmtree(base, ignore_errors=True)
    os.makedirs(base)
    data = os.path.join(base, "in.bin")
    with open(data, "wb") as f:
        f.write(b"mode probe")
    res, n = [], 0

    class Rec(env.BaseWorker):
        def __init__(self):
            super().__init__("T1")
            self.locks = []

        def point(self, op, pred=None):
            if op[0] == "lock" and isinstance(op[2], int):
                self.locks.append(op[2])

    old = os.environ.get("USE_MULTIPROCESSING")
    try:
        for step, (rname, setting) in enumerate(order):
            os.environ["USE_MULTIPROCESSING"] = setting
            root = os.path.join(base, rname)
            store = FileHashStore(common.props(root))
            env.set_root(root)
            w = Rec()
            env.CUR.w = w
            try:
                store.store_object("pid-%d" % step, data)
            finally:
                env.CUR.w = None
            owner = {}
            for sh in env.STATE.shims:
                if isinstance(sh, env.SCond):
                    owner[sh.lock._id()] = type(sh).__name__
            kinds = {owner.get(i, "lock") for i in w.locks} - {"lock"}
            want = {"SCondMP"} if setting == "True" else {"SCond"}
            n += 1
            if kinds != want:
                res.append(({"kind": "mode-at-initialisation",
                             "what": "a store initialised with USE_MULTIPROCESSING=%s synchronises through %s conditions" % (
                                 setting, "/".join(sorted(kinds)) or "no")},
                            {"order": [list(x) for x in order], "step": step}))
    finally:
        if old is None:
            os.environ.pop("USE_MULTIPROCESSING", None)
        else:
            os.environ["USE_MULTIPROCESSING"] = old
    return n, res


MODE_ORDERS = [
    [("R1", "False"), ("R1", "True"), ("R1", "False"), ("R2", "True"), ("R2", "False"), ("R1", "True")],
    [("R1", "True"), ("R1", "False"), ("R2", "False"), ("R2", "True"), ("R1", "True")],
]


def main(tier):
    rep = common.Report("C16", tier, "model_checking")
    real_processes(rep, tier)
    from ..par import pmap as _pm
    nm = 0
    for cnt, res in _pm(_mode_job, MODE_ORDERS):
        nm += cnt
        for sig, det in res:
            rep.violation(sig, det)
    rep.coverage["mode_at_initialisation_cases"] = nm
    from .. import fscen
    from ..par import pmap
    nf = 0
    for cnt, res in pmap(_fault_differential, fscen.CASES + fscen.THOROUGH_CASES):
        nf += cnt
        for sig, det in res:
            rep.violation(sig, det)
    rep.coverage["fault_differential_runs_per_mode"] = nf
    run_spec(rep, differential(c05.C05Spec)(tier if tier == "thorough" else "quick"), "C05-alphabet-both-modes",
             time_cap=150 if tier == "quick" else 3000)
    run_spec(rep, differential(c11.C11Spec)("quick"), "C11-alphabet-both-modes", time_cap=150 if tier == "quick" else 3000)
    results = run_scenarios(rep, mp_scenarios(tier))
    from .. import tscen
    tot = {"executions": 0, "states": 0, "transitions": 0}
    per = {}
    for r in results:
        from ._t import usable
        if not usable(rep, r):
            continue
        for k in tot:
            tot[k] += r[k]
        per[r["name"]] = {"executions": r["executions"], "states": r["states"], "terminal_observations": r["terminals"],
                          "capped": r["capped"]}
        for vd in r["verdicts"]:
            if vd["verdict"] == "violation" and vd["kind"] == "residue-only" and r["spec"].get("faults"):
                continue  # residue after a call hit by an injected fault: information only
            if vd["verdict"] == "violation":
                rep.violation(tscen.sig_of(r["spec"], vd),
                              {"spec": r["spec"], "schedule": vd["schedule"], "terminal": vd["terminal"], "kind": vd["kind"]})
        for v, ch in r["step_violations"]:
            rep.violation({"scenario": r["name"], "kind": "step", "what": v}, {"spec": r["spec"], "schedule": ch})
    cov = rep.coverage
    cov["states"] += tot["states"]
    cov["transitions"] += tot["transitions"]
    cov["traces_validated_against_impl"] += tot["executions"]
    cov.update({"mp_scenarios": len(results), "mp_executions": tot["executions"], "per_scenario": per,
                "exhaustive": cov.get("exhaustive", True) and not any(r["capped"] for r in results)})
    rep.assumptions += ["the multiprocessing primitives (Lock, Condition, Manager().list()) are replaced by cooperative shims; "
                        "Condition.notify may wake ANY process sleeping at that time (explored), unlike threading's FIFO",
                        "a 'process' is a controlled thread with its own copy of every plain attribute of the instance; real "
                        "forked processes are exercised only by the sampled conformance self-test"]
    return rep.finish(rep._samples)


def replay(rep):
    r = rep["replay"]
    if "schedule" in r:
        return replay_schedule(rep)
    part = rep["signature"].get("part", "")
    base = c11.C11Spec if part.startswith("C11") else c05.C05Spec
    return replay_history(differential(base)("thorough" if base is c05.C05Spec else "quick"), rep)
