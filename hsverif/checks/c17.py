"""C17 - rejected and read-only calls change nothing (grammar of bad values, singles and pairs)."""
import io
import itertools
import os

from .. import common
from ..common import pattern, snapshot, DEFAULT_NS
from ..par import pmap
from ..specs import locked_lists

DOCUMENTED = {"ValueError", "TypeError", "UnsupportedAlgorithm", "PidRefsDoesNotExist"}
BAD_ID = [None, "", " ", "a b", "a\tb", "a\n", " lead", "trail ", " ",
          # whitespace outside ASCII: no-break space, em space, line separator, ideographic space, file separator
          "abc\u00a0", "a\u2003b", "a\u2028b", "\u3000x", "a\x1cb"]
BAD_ALGO = ["sha257", "", "md6", "SHA-999", "a b", "sha3256", "sha-3-256", "SHA_3_512", "sha3_2_56"]
BAD_SIZE = [0, -1, "5", 1.5]
BAD_DATA = [7, b"bytes", ["list"], "", "   ", "/nonexistent/file/xyz", None]
DATA = pattern(300, 3)
DATA2 = pattern(41, 9)
TIER = "quick"


def grammar(paths):
    import hashlib
    from hashstore.filehashstore import ObjectMetadata
    cid = hashlib.sha256(DATA).hexdigest()
    om = ObjectMetadata("x", hashlib.sha256(DATA2).hexdigest(), len(DATA2), common.digests(DATA2, common.DEFAULT_ALGOS))
    md5 = hashlib.md5(DATA).hexdigest()
    md5_2 = hashlib.md5(DATA2).hexdigest()
    g = {
        "store_object": {
            "valid": {"pid": "new", "data": paths["data"], "additional_algorithm": "sha224", "checksum": md5,
                      "checksum_algorithm": "md5", "expected_object_size": len(DATA)},
            "stress": [{"expected_object_size": len(DATA) + 1}, {"checksum": "0" * 32}, {"data": paths["data2"]},
                       {"pid": "held"}],
            "bad": {"pid": BAD_ID[1:], "data": BAD_DATA, "additional_algorithm": BAD_ALGO + [5],
                    "checksum": BAD_ID[1:] + [None], "checksum_algorithm": BAD_ALGO + [None, " "],
                    "expected_object_size": BAD_SIZE},
        },
        "tag_object": {"valid": {"pid": "new", "cid": cid}, "bad": {"pid": BAD_ID, "cid": BAD_ID}},
        "delete_if_invalid_object": {
            "valid": {"object_metadata": om, "checksum": md5_2, "checksum_algorithm": "md5", "expected_file_size": len(DATA2)},
            # well-formed values that do not match the object: a call rejected for ANOTHER argument must still
            # change nothing
            "stress": [{"expected_file_size": len(DATA2) + 1}, {"checksum": "0" * 32},
                       {"expected_file_size": len(DATA2) + 1, "checksum": "0" * 32}],
            "bad": {"object_metadata": [None, "str", {"cid": cid}], "checksum": BAD_ID, "checksum_algorithm": BAD_ID + BAD_ALGO,
                    "expected_file_size": BAD_SIZE},
        },
        "store_metadata": {"valid": {"pid": "held", "metadata": paths["doc"], "format_id": "fmt"},
                           "bad": {"pid": BAD_ID, "metadata": BAD_DATA, "format_id": [" ", "\t"]}},
        "retrieve_object": {"valid": {"pid": "held"}, "bad": {"pid": BAD_ID + ["unknown-pid", "meta-only"]}},
        "retrieve_metadata": {"valid": {"pid": "held", "format_id": None}, "bad": {"pid": BAD_ID, "format_id": [" "]}},
        "delete_object": {"valid": {"pid": "held"}, "bad": {"pid": BAD_ID + ["unknown-pid", "meta-only"]}},
        "delete_metadata": {"valid": {"pid": "held", "format_id": None}, "bad": {"pid": BAD_ID, "format_id": [" "]}},
        "get_hex_digest": {"valid": {"pid": "held", "algorithm": "sha256"},
                           "bad": {"pid": BAD_ID + ["unknown-pid", "meta-only"], "algorithm": BAD_ID + BAD_ALGO}},
    }
    return g


def _method(args):
    method, populated = args
    from hashstore.filehashstore import FileHashStore
    root = os.path.join(common.scratch(), "c17-%s-%d" % (method, populated))
    paths = {"data": os.path.join(common.scratch(), "c17_data"), "doc": os.path.join(common.scratch(), "c17_doc"),
             "data2": os.path.join(common.scratch(), "c17_data2")}
    with open(paths["data"], "wb") as f:
        f.write(DATA)
    with open(paths["data2"], "wb") as f:
        f.write(DATA2)
    with open(paths["doc"], "wb") as f:
        f.write(b"<doc/>")
    store = FileHashStore(common.props(root))
    if populated:
        store.store_object("held", paths["data"])
        store.store_object("other", paths["doc"])
        store.store_metadata("held", paths["doc"])
        store.store_metadata("held", paths["doc"], "fmt")
        store.store_metadata("meta-only", paths["doc"])  # metadata arrived before the object: the pid is unknown
        store.store_metadata("meta-only", paths["doc"], "fmt")
        store.store_object(None, paths["data2"])  # an unreferenced object
        # a pid whose delete_object was hit by I/O errors when it finally unlinked its '*_delete' marker files: whatever the
        # call left behind is part of the store now, and the pid is unknown - looking it up must not touch that either
        with open(paths["data"] + ".gone", "wb") as f:
            f.write(b"content of the pid that was deleted under faults")
        store.store_object("gone-with-leftovers", paths["data"] + ".gone")
        store.store_metadata("gone-with-leftovers", paths["doc"])
        real_remove, real_unlink = os.remove, os.unlink

        def failing(p, *a, **k):
            if str(p).endswith("_delete"):
                raise OSError(5, "Input/output error (injected)", str(p))
            return real_remove(p, *a, **k)
        os.remove = os.unlink = failing
        try:
            store.delete_object("gone-with-leftovers")
        except Exception:  # noqa: BLE001
            pass
        finally:
            os.remove, os.unlink = real_remove, real_unlink
    if populated:
        # the instance has already served every supported algorithm in several spellings
        for a in common.ALL_ALGOS:
            for sp in (a, a.upper(), a.replace("_", "-")):
                store.get_hex_digest("held", sp)
        store.store_object("warm", paths["doc"], additional_algorithm="SHA3-256", checksum_algorithm="sha3_512",
                           checksum=__import__("hashlib").sha3_512(b"<doc/>").hexdigest())
    g = grammar(paths)[method]
    if populated and "unknown-pid" in g["bad"].get("pid", ()):
        from ..absx import Layout
        if not os.path.exists(os.path.join(root, Layout().pid_ref_path("gone-with-leftovers"))):
            # unknown indeed (decided from the layout, not by asking the store): its leftovers must survive every look-up
            g["bad"]["pid"] = list(g["bad"]["pid"]) + ["gone-with-leftovers"]
    res, n, classes = [], 0, set()
    before = snapshot(root)
    params = list(g["bad"])
    cases = []
    for p in params:
        for v in g["bad"][p]:
            cases.append({p: v})
    for p, q in itertools.combinations(params, 2):
        vs_p = g["bad"][p] if TIER == "thorough" else g["bad"][p][:4]
        vs_q = g["bad"][q] if TIER == "thorough" else g["bad"][q][:4]
        for v in vs_p:
            for w in vs_q:
                cases.append({p: v, q: w})
    stressed = []
    for st in g.get("stress", []):
        for p in params:
            if p in st:
                continue
            for v in g["bad"][p]:
                stressed.append((st, {p: v}))
    for item in [({}, b) for b in cases] + stressed:
        st, bad = item
        kw = dict(g["valid"])
        kw.update(st)
        kw.update(bad)
        if method == "store_object" and bad.get("checksum", 1) is None and bad.get("checksum_algorithm", 1) is None:
            continue  # neither a checksum nor its algorithm: a valid call without validation data
        if not populated and any(v == "unknown-pid" for v in bad.values()):
            pass
        n += 1
        try:
            r = getattr(store, method)(**kw)
            if hasattr(r, "close"):
                r.close()
            out = "ok"
        except Exception as e:  # noqa: BLE001
            out = type(e).__name__
        after = snapshot(root)
        ll = locked_lists(store)
        classes.add((method, tuple(sorted(bad)), tuple(sorted(st)), out))
        what = None
        if out == "ok":
            what = "a call with an invalid %s was accepted" % "+".join(sorted(bad))
        elif st and out in ("NonMatchingChecksum", "NonMatchingObjSize", "HashStoreRefsAlreadyExists",
                            "PidRefsAlreadyExistsError"):
            pass  # which of two applicable rejections comes first is not prescribed; the store must not change
        elif out not in DOCUMENTED:
            what = "a call with an invalid %s raised %s (not a documented class)" % ("+".join(sorted(bad)), out)
        if after != before:
            what = "a rejected call (invalid %s) changed the store" % "+".join(sorted(bad))
        if any(ll.values()):
            what = "a rejected call left an identifier locked"
        if what:
            res.append(({"kind": "rejected", "method": method, "what": what},
                        {"bad": {k: repr(v) for k, v in bad.items()}, "with": {k: repr(v) for k, v in st.items()},
                         "outcome": out, "populated": bool(populated),
                         "diff": common.tree_diff(before, after)[:8]}))
            if after != before:
                common.restore(root, before)
    # successful read-only calls
    if populated and method in ("retrieve_object", "retrieve_metadata", "get_hex_digest"):
        variants = [g["valid"]]
        if method == "retrieve_metadata":
            variants.append({"pid": "held", "format_id": "fmt"})
        if method == "get_hex_digest":
            variants += [{"pid": "held", "algorithm": a} for a in ("SHA-512", "blake2b", "md5")]
        if method == "retrieve_object":
            variants.append({"pid": "other"})
        for kw in variants:
            n += 1
            r = getattr(store, method)(**kw)
            if hasattr(r, "read"):
                r.read()
                r.close()
            classes.add((method, "read-only", "ok"))
            if snapshot(root) != before:
                res.append(({"kind": "read-only", "method": method, "what": "a successful read-only call changed the store"},
                            {"kwargs": {k: repr(v) for k, v in kw.items()}}))
    return n, res, classes


METHODS = ["store_object", "tag_object", "delete_if_invalid_object", "store_metadata", "retrieve_object",
           "retrieve_metadata", "delete_object", "delete_metadata", "get_hex_digest"]


def main(tier):
    global TIER
    TIER = tier
    rep = common.Report("C17", tier, "exploration")
    n = 0
    classes = set()
    for cnt, res, cl in pmap(_method, [(m, p) for m in METHODS for p in (0, 1)]):
        n += cnt
        classes |= cl
        for sig, det in res:
            rep.violation(sig, det)
    rep.coverage.update({
        "evaluations": n, "distinct_nontrivial": len(classes), "exhaustive": True,
        "rule": "for each of the nine public methods: every bad value of every parameter (None, empty, whitespace-containing "
                "identifiers; unsupported algorithm names; sizes 0, -1, '5', 1.5; unsupported data types and nonexistent "
                "paths; checksum without algorithm and the reverse; unknown pid) with all other parameters valid, and all "
                "pairs of bad parameters (%s), from an empty and a populated store; plus successful read-only calls; "
                "distinct = (method, set of bad parameters, outcome class)" % (
                    "complete" if tier == "thorough" else "first four values of each"),
    })
    rep.assumptions += ["must-reject grammar limited to what the property lists; an empty-string format_id or a boolean "
                        "size is not claimed to be invalid"]
    return rep.finish([{"method": "store_object", "bad": {"checksum_algorithm": None}}])


def replay(rep):
    print(rep["replay"])
    return 1
