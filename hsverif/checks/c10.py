"""C10 - a crash harms nothing else and never wedges the interrupted pid (engine F, crash mode).
Also provides the crash enumeration used by C09 (part b)."""
import hashlib
import os

from .. import common, env, engine_f, fscen, i9, ops as O
from ..common import restore, snapshot
from ..par import pmap
from ..specs import make_store
from .c13 import site_class

NOTFOUND = {"PidRefsDoesNotExist", "RefsFileExistsButCidObjMissing", "OrphanPidRefsFileFound",
            "PidNotFoundInCidRefsFile", "CidRefsFileNotFound", "PidRefsFileNotFound"}


def crash_states(case):
    """Recording run of the call; returns (base run, [(first site index, site op, tree)]) for the
    distinct kernel-visible trees seen before each file-system operation and after the last."""
    op, state, label = case[:3]
    fscen.configure(case[3] if len(case) > 3 else None)
    c = fscen.ctx()
    root = os.path.join(common.scratch(), "fstore")
    init = fscen.init_tree(state)
    env.install()
    base = engine_f.run_call(root, init, fscen.P, op, c, snapshots=True)
    seen = {}
    out = []
    for i, files, dirs in base.snapshots:
        t = engine_f.tree_of(files, dirs)
        k = common.tree_key(t)
        if k not in seen:
            seen[k] = i
            sop = base.sites[i] if i < len(base.sites) else ("end",)
            out.append((i, sop, t))
    return base, out, init, root, c


def _job(case):
    op, state, label = case[:3]
    base, states, init, root, c = crash_states(case)
    kind = op[0]
    target = op[1] if kind in ("store", "tag", "delete", "store_meta", "delete_meta") else None
    si = make_store_on(root, init)
    ini_probe = fscen.probe(si, c)
    ini_vis = fscen.visible(fscen.absof(init), c)
    ini_abs = fscen.absof(init)
    docs, cids = i9.allowed_sets(c, init)
    res = {"case": label, "call": O.name(op), "state": state, "crash_points": len(base.snapshots),
           "distinct_crash_states": len(states), "violations": [], "classes": set()}
    # 'dies at any point inside any API call' includes a call that an I/O error has hit: every image that FOLLOWS each fault
    # site of the call (one-off and persistent EIO) is a crash image too
    import errno as _errno
    seen_keys = {common.tree_key(t) for _, _, t in states}
    states = [(i, sop, t, None) for i, sop, t in states]
    focc = {}
    for fi, fop in enumerate(base.sites):
        if not engine_f.is_fault_site(fop):
            continue
        fk = site_class(fop)
        fname = "%s#%d" % (fk, focc.get(fk, 0))
        focc[fk] = focc.get(fk, 0) + 1
        for persistent in (False, True):
            r = engine_f.run_call(root, init, fscen.P, op, c, fault=(fi, _errno.EIO, persistent), snapshots=True)
            if not r.injected:
                continue
            res["faulted_runs"] = res.get("faulted_runs", 0) + 1
            for j, files, dirs in r.snapshots:
                if j <= fi:
                    continue
                t = engine_f.tree_of(files, dirs)
                key = common.tree_key(t)
                if key in seen_keys:
                    continue
                seen_keys.add(key)
                sj = r.sites[j] if j < len(r.sites) else ("end",)
                states.append((j, sj, t, "after %s EIO at %s: %s" % (
                    "a persistent" if persistent else "a one-off", fname, site_class(sj) if sj[0] != "end" else "end")))
    res["distinct_crash_states"] = len(states)
    occ = {}
    for i, sop, tree, tag in states:
        k = site_class(sop) if sop[0] != "end" else "end"
        name = "%s#%d" % (k, occ.get(k, 0))
        occ[k] = occ.get(k, 0) + 1
        if tag is not None:
            name = tag
        viol = []
        # I9 on the crash image
        for where, what in i9.check_tree(tree, fscen.LAYOUT.algo, docs, cids):
            viol.append(("crash image: " + what, {"where": where}))
        s = make_store_on(root, tree)
        pr = fscen.probe(s, c)
        vis = fscen.visible(fscen.absof(tree), c)
        for b in fscen.PIDS:
            if b == target:
                continue
            if pr[b] != ini_probe[b]:
                viol.append(("another pid's object or metadata differs after the crash", {"pid": b}))
            if vis["bind"].get(repr(b)) != ini_vis["bind"].get(repr(b)):
                viol.append(("another pid's references differ after the crash", {"pid": b}))
        # reference lists shared with bystanders: the other pids' lines exactly as before, and a NEW line for the
        # interrupted pid only together with the pid reference that makes it a binding
        a_now, a_ini = fscen.absof(tree), ini_abs
        for cid0, text0 in a_ini.cid_refs.items():
            before = [x for x in (a_ini.cid_lines(cid0) or []) if x != target]
            if not before:
                continue  # nobody else shares this list
            now = a_now.cid_lines(cid0)
            if now is None:
                viol.append(("a reference list shared with other pids disappeared", {"cid": cid0[:8]}))
                continue
            if not set(before) <= set(now):
                viol.append(("a bystander's line vanished from a shared reference list after the crash", {"cid": cid0[:8]}))
            if target in now and target not in (a_ini.cid_lines(cid0) or []) and a_now.pid_refs.get(target) != cid0:
                viol.append(("a shared reference list gained a line for the interrupted pid without its pid reference",
                             {"cid": cid0[:8]}))
        if target is not None and kind in ("store", "tag", "delete"):
            got = pr[target][0]
            if isinstance(got, tuple):
                want = _expected_bytes(op, ini_probe[target][0], c)
                if got[1] not in want:
                    viol.append(("interrupted pid is served with wrong bytes", {}))
            elif got not in NOTFOUND:
                viol.append(("interrupted pid: retrieve_object raises %s (not a not-found / inconsistency class)" % got, {}))
            res["classes"].add((label, "retrieve", got if isinstance(got, str) else "ok"))
            # recovery: delete_object(pid) (may report unknown pid) then store_object(pid, data) succeeds
            d = O.run(s, ("delete", target), c)
            res["classes"].add((label, "delete", d[0]))
            if d[0] not in ("ok", "PidRefsDoesNotExist"):
                viol.append(("recovery: delete_object(pid) raises %s" % d[0], {}))
            cname = op[2] if kind in ("store", "tag") and op[2] in c.inputs.data else "A"
            st = O.run(s, ("store", target, cname, None), c)
            if st[0] != "ok":
                viol.append(("recovery: store_object(pid, data) after delete_object raises %s" % st[0], {"delete": d[0]}))
            else:
                back = O.run(s, ("retrieve", target), c)
                if back[0] != "ok" or back[1] != c.inputs.data[cname]:
                    viol.append(("recovery: pid not retrievable with the right bytes after re-storing", {"retrieve": back[0]}))
            # ... and the recovery did not disturb the bystanders
            pr2 = fscen.probe(s, c, [b for b in fscen.PIDS if b != target])
            for b in pr2:
                if pr2[b] != ini_probe[b]:
                    viol.append(("recovery of the interrupted pid disturbed another pid", {"pid": b}))
            # the same promise after OTHER recovery histories on a fresh copy of the image: (a) the pids that share or
            # neighbour the interrupted pid are deleted first (each is bound as before the crash, so each delete succeeds),
            # (b) the pid is re-stored with OTHER content than the interrupted call offered
            others = [b for b in fscen.PIDS if b != target and isinstance(ini_probe[b][0], tuple)]
            other_content = "B" if cname != "B" else "A"
            for script in ("bystanders deleted first", "other content"):
                s2 = make_store_on(root, tree)
                bad = None
                if script == "bystanders deleted first":
                    for b in others:
                        db = O.run(s2, ("delete", b), c)
                        if db[0] != "ok":
                            bad = "delete_object of another (bound) pid raises %s" % db[0]
                            break
                if bad is None:
                    d2 = O.run(s2, ("delete", target), c)
                    if d2[0] not in ("ok", "PidRefsDoesNotExist"):
                        bad = "delete_object(pid) raises %s" % d2[0]
                if bad is None:
                    cn = other_content if script == "other content" else cname
                    st2 = O.run(s2, ("store", target, cn, None), c)
                    if st2[0] != "ok":
                        bad = "store_object(pid, data) after delete_object raises %s" % st2[0]
                    else:
                        back = O.run(s2, ("retrieve", target), c)
                        if back[0] != "ok" or back[1] != c.inputs.data[cn]:
                            bad = "pid not retrievable with the right bytes after re-storing (%s)" % back[0]
                if bad is None and script == "other content":
                    pr3 = fscen.probe(s2, c, [b for b in fscen.PIDS if b != target])
                    if any(pr3[b] != ini_probe[b] for b in pr3):
                        bad = "another pid was disturbed"
                if bad is None:
                    left = O.run(s2, ("delete", target), c)
                    if left[0] != "ok":
                        bad = "the re-stored pid cannot be deleted again (%s)" % left[0]
                res["classes"].add((label, script, bad or "ok"))
                if bad:
                    viol.append(("recovery (%s): %s" % (script, bad), {}))
        if target is not None and kind in ("store_meta", "delete_meta", "delete"):
            # metadata recovery histories on fresh copies of the image: the pid's documents can be deleted, stored again and
            # read back, in both orders, without touching any other pid's documents
            for script in ("delete-all first", "store first"):
                s2 = make_store_on(root, tree)
                bad = None
                steps = [("delete_meta", target, None), ("store_meta", target, None, "v1"), ("store_meta", target, "f2", "v2")]
                if script == "store first":
                    steps = [("store_meta", target, "f2", "v2"), ("store_meta", target, None, "v1"), ("delete_meta", target, "f2"),
                             ("store_meta", target, "f2", "v2")]
                for stp in steps:
                    o = O.run(s2, stp, c)
                    if o[0] != "ok":
                        bad = "%s raises %s" % (O.name(stp), o[0])
                        break
                if bad is None:
                    for fmt, doc in ((None, "v1"), ("f2", "v2")):
                        g = O.run(s2, ("retrieve_meta", target, fmt), c)
                        if g[0] != "ok" or g[1] != c.docs.data[doc]:
                            bad = "a document stored after the crash is not returned (%s)" % g[0]
                if bad is None:
                    o = O.run(s2, ("delete_meta", target, None), c)
                    g = [O.run(s2, ("retrieve_meta", target, fmt), c)[0] for fmt in (None, "f2")]
                    if o[0] != "ok" or any(x == "ok" for x in g):
                        bad = "delete_metadata(pid) after the crash leaves a document behind"
                if bad is None:
                    pr3 = fscen.probe(s2, c, [b for b in fscen.PIDS if b != target])
                    if any(pr3[b][1:] != ini_probe[b][1:] for b in pr3):
                        bad = "another pid's documents were disturbed"
                res["classes"].add((label, "metadata " + script, bad or "ok"))
                if bad:
                    viol.append(("metadata recovery (%s): %s" % (script, bad), {}))
        if target is not None and kind in ("store_meta", "delete_meta"):
            for j, f in enumerate(fscen.FORMATS):
                got = pr[target][1 + j]
                if isinstance(got, tuple) and got[1] not in docs:
                    viol.append(("metadata document served with bytes that are not a supplied version", {"format": f}))
            if pr[target][0] != ini_probe[target][0]:
                viol.append(("metadata call changed the pid's object after the crash", {}))
        for what, det in viol:
            det = dict(det)
            det.update({"call": list(op), "state": state, "crash_before_site": i, "site_op": list(sop),
                        "config": case[3] if len(case) > 3 else None})
            res["violations"].append(({"case": label, "crash_before": name, "what": what}, det))
    return res


def _expected_bytes(op, ini, c):
    ok = set()
    if isinstance(ini, tuple):
        ok.add(ini[1])
    if op[0] in ("store", "tag") and op[2] in c.inputs.data:
        ok.add(c.inputs.data[op[2]])
    return ok


def make_store_on(root, tree):
    restore(root, tree)
    env.set_root(root)
    return make_store(root, fscen.P, {"USE_MULTIPROCESSING": "False"})


def main(tier):
    rep = common.Report("C10", tier, "model_checking")
    cases = fscen.CASES + fscen.THOROUGH_CASES + fscen.LONG_LIST_CASES + fscen.SHALLOW_CASES + fscen.LISTING_CASES
    pts = states = 0
    per = {}
    classes = set()
    for r in pmap(_job, cases):
        pts += r["crash_points"]
        states += r["distinct_crash_states"]
        classes |= r["classes"]
        per["%s from %s" % (r["call"], r["state"])] = {"what": r["case"], "crash_points": r["crash_points"],
                                                       "distinct_crash_states": r["distinct_crash_states"]}
        for sig, det in r["violations"]:
            rep.violation(sig, det)
    # process death while TWO calls are in flight: every distinct tree seen after a scheduling step of every
    # interleaving (engine T) is a crash image
    from ._t import run_scenarios
    S = lambda p, c: ("store", p, c, None)
    pairs = [("t1A||t2A", "Aunref", [("tag", "p1", "A")], [("tag", "p2", "A")]),
             ("s2A||d1", "p1A", [S("p2", "A")], [("delete", "p1")]),
             ("d1||t2A", "p1A", [("delete", "p1")], [("tag", "p2", "A")])]
    if tier == "thorough":
        pairs += [("d1||d2", "p1A,p2A", [("delete", "p1")], [("delete", "p2")]), ("s1A||s2A", "empty", [S("p1", "A")], [S("p2", "A")]),
                  ("s1A||s1B", "empty", [S("p1", "A")], [S("p1", "B")]), ("d1||d1", "p1A", [("delete", "p1")], [("delete", "p1")])]
    specs = [{"name": n + " (crash images of two calls in flight)", "init": st, "threads": {"T1": a, "T2": b},
              "pids": ("p1", "p2", "p3"), "formats": (common.DEFAULT_NS,), "observer": "images", "bystander": True,
              "judge": "liveness"} for n, st, a, b in pairs]
    conc_images = conc_exec = 0
    for r in run_scenarios(rep, specs):
        from ._t import usable
        if not usable(rep, r):
            continue
        conc_images += r["crash_images"]
        conc_exec += r["executions"]
        per[r["name"]] = {"executions": r["executions"], "distinct_crash_images": r["crash_images"]}
        for v in r["image_violations"]:
            rep.violation({"case": r["name"], "part": "concurrent", "what": v}, {"spec": r["spec"]})
    states += conc_images
    pts += conc_images
    rep.coverage["crash_images_two_calls_in_flight"] = conc_images
    rep.coverage["interleavings_explored_for_crash_images"] = conc_exec
    rep.coverage.update({
        "states": states, "transitions": pts, "traces_validated_against_impl": len(cases),
        "crash_points": pts, "distinct_crash_states": states, "exhaustive": True, "cases": per,
        "distinct_recovery_observations": len(classes),
    })
    rep.assumptions += ["process death = every completed system call is durable, nothing else is (user-space buffers lost); "
                        "power loss / page-cache loss is not modelled",
                        "each distinct crash image is re-opened by a fresh FileHashStore and interrogated through the API",
                        "'exactly as before' for references = pid reference content and cid-list membership"]
    return rep.finish([{"case": cases[0][2], "crash_before": "rename:rename:objects/tmp:objects#0"}])




def replay(rep):
    r = rep["replay"]
    case = (tuple(r["call"]), r["state"], "replay") + ((r["config"],) if r.get("config") else ())
    base, states, init, root, c = crash_states(case)
    for i, sop, tree in states:
        if i == r["crash_before_site"]:
            print("crash before site", i, sop)
            print(fscen.absof(tree).describe())
    return 1
