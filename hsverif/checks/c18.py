"""C18 - identifiers are opaque: arbitrary pid / format strings never alias or escape."""
import hashlib
import os
import re

from .. import common, env
from ..absx import Layout, abstract
from ..common import pattern, snapshot, DEFAULT_NS
from ..par import pmap

A = pattern(700, 1)
B = pattern(20, 2)
D1 = b"<doc-one/>"
D2 = b"<doc-two-longer/>"
TIER = "quick"


def identifiers():
    ids = ["x", "xy", "y", "X", "../x", "../../etc/passwd", "/etc/passwd", "a/b", ".", "..", "-rf", "*", "?", "[a]",
           "$HOME", "`id`", ";rm", "a|b", "a&b", "\\", "a\\b", "'", "\"", "%00", "\x01\x02", "a\x00b", "é", "é",
           "\U0001F600", "x_delete", "tmp", "objects", "hashstore.yaml", "refs/pids", "p" * 5000,
           hashlib.sha256(A).hexdigest(), hashlib.sha256(b"x").hexdigest(), "ab", "a", "~", "CON", "x.", ".x",
           "漢" * 1100 + "/v1", "漢" * 1100 + "/v2", "x" * 2047 + "é/1", "x" * 2047 + "é/2",
           "x" + DEFAULT_NS[:10]]  # with the rest of the namespace as format: pid+format equals "x" + default namespace
    return ids


FORMATS = [None, "fmt/../x", "c", "bc"]
GRAMMAR = re.compile(r"^(hashstore\.yaml|"
                     r"(objects|metadata|refs)/tmp(/[^/]+)?|"
                     r"objects(/[0-9a-f]+)+(_delete)*|"
                     r"refs/(pids|cids)(/[0-9a-f]+)+(_delete)*|"
                     r"metadata(/[0-9a-f]+)+(_delete)*|"
                     r"objects|metadata|refs|refs/pids|refs/cids|\.)$")


class Recorder(env.BaseWorker):
    def __init__(self):
        super().__init__("T1")
        self.paths = set()

    def point(self, op, pred=None):
        if op[0] not in ("probe", "lock", "open-r", "read"):
            self.paths.update(self.real)

    def private(self, op):
        if op[0] not in ("probe", "lock", "open-r", "read"):
            self.paths.update(self.real)


def _script(store, x, y, fx, fy, inp, errs):
    def check_y(step):
        try:
            s = store.retrieve_object(y)
            if s.read() != A:
                errs.append("after %s: bystander's object bytes differ" % step)
            s.close()
            m = store.retrieve_metadata(y) if fy is None else store.retrieve_metadata(y, fy)
            if m.read() != D2:
                errs.append("after %s: bystander's metadata bytes differ" % step)
            m.close()
        except Exception as e:  # noqa: BLE001
            errs.append("after %s: bystander no longer readable (%s)" % (step, type(e).__name__))

    def sm(pid, doc, fmt):
        return store.store_metadata(pid, doc) if fmt is None else store.store_metadata(pid, doc, fmt)

    def dm(pid, fmt):
        return store.delete_metadata(pid) if fmt is None else store.delete_metadata(pid, fmt)

    store.store_object(x, inp["A"])
    store.store_object(y, inp["A"])
    sm(x, inp["D1"], fx)
    sm(y, inp["D2"], fy)
    check_y("store")
    m = store.retrieve_metadata(x) if fx is None else store.retrieve_metadata(x, fx)
    if m.read() != D1:
        errs.append("the first identifier's metadata was overwritten by the second's")
    m.close()
    if fx is not None:
        dm(x, fx)
        check_y("delete_metadata(x, format)")
        sm(x, inp["D1"], fx)
    dm(x, None)
    check_y("delete_metadata(x)")
    sm(x, inp["D1"], fx)
    store.delete_object(x)
    check_y("delete_object(x)")
    try:
        store.retrieve_object(x)
        errs.append("deleted identifier still retrievable")
    except Exception:  # noqa: BLE001
        pass
    # bind x to the shared object again (allowed: it was deleted), then delete it once more
    store.tag_object(x, hashlib.sha256(A).hexdigest())
    check_y("re-tagging x to the shared object")
    s = store.retrieve_object(x)
    if s.read() != A:
        errs.append("re-tagged identifier returns other bytes")
    s.close()
    store.delete_object(x)
    check_y("second delete_object(x)")
    store.store_object(x, inp["B"])
    check_y("re-store of x")
    s = store.retrieve_object(x)
    if s.read() != B:
        errs.append("re-stored identifier returns other bytes")
    s.close()
    try:
        store.tag_object(x, hashlib.sha256(A).hexdigest())
        errs.append("bound identifier tagged again")
    except Exception:  # noqa: BLE001
        pass
    check_y("rejected tag of x")


def _first(xi):
    from hashstore.filehashstore import FileHashStore
    ids = identifiers()
    x = ids[xi]
    parent = os.path.join(common.scratch(), "c18-%d" % xi)
    inp = {}
    for k, v in (("A", A), ("B", B), ("D1", D1), ("D2", D2)):
        inp[k] = os.path.join(common.scratch(), "c18in_%s" % k)
        with open(inp[k], "wb") as f:
            f.write(v)
    env.install()
    res, n = [], 0
    lay = Layout()
    for yi, y in enumerate(ids):
        if yi == xi:
            continue
        fmts = [(None, None)] if TIER == "quick" and (xi + yi) % 4 else [(None, None), ("fmt/../x", "fmt/../x"), ("c", "bc")]
        # (pid, format) pairs whose CONCATENATIONS coincide although the pids differ - always run
        for u, v, swap in ((x, y, False), (y, x, True)):
            if u.startswith(v) and len(u) > len(v):
                sfx = u[len(v):]
                pair = ("c", sfx + "c")
                fmts.append(pair if not swap else pair[::-1])
                if DEFAULT_NS.startswith(sfx) and len(sfx) < len(DEFAULT_NS):
                    pair = (DEFAULT_NS[len(sfx):], None)
                    fmts.append(pair if not swap else pair[::-1])
        for fx, fy in fmts:
            import shutil
            shutil.rmtree(parent, ignore_errors=True)
            os.makedirs(parent)
            root = os.path.join(parent, "store")
            env.reset_execution()
            env.set_root(root)
            env.STATE.outside = []
            store = FileHashStore(common.props(root))
            rec = Recorder()
            errs = []
            env.CUR.w = rec
            try:
                _script(store, x, y, fx, fy, inp, errs)
            except Exception as e:  # noqa: BLE001
                errs.append("script raised %s: %s" % (type(e).__name__, str(e)[:80].replace(x, "<x>").replace(y, "<y>")))
            finally:
                env.CUR.w = None
            n += 1
            outside = [o for o in env.STATE.outside if not any(str(p).startswith(common.scratch()) for p in o[1:])]
            env.STATE.outside = None
            if outside:
                errs.append("a mutating file-system operation outside the store root")
            bad = sorted(p for p in rec.paths if not GRAMMAR.match(p))
            if bad:
                errs.append("a file created at a location that is not derived from hashes only")
            if sorted(os.listdir(parent)) != ["store"]:
                errs.append("something was created beside the store root")
            a = abstract(snapshot(root), lay, (x, y), tuple({DEFAULT_NS, "fmt/../x", "c", "bc", fx or DEFAULT_NS, fy or DEFAULT_NS}))
            if a.residue or any(isinstance(k, tuple) and k[0] == "\0unexplained" for k in list(a.pid_refs) + list(a.metadata)):
                errs.append("final tree holds files the layout does not explain for these two identifiers")
            for e in sorted(set(errs)):
                res.append(({"kind": "alias", "what": e},
                            {"x": repr(x)[:60], "y": repr(y)[:60], "formats": [fx, fy], "bad_paths": bad[:3],
                             "outside": outside[:3]}))
    return n, res


def format_alphabet():
    import unicodedata
    nfc = unicodedata.normalize("NFC", "http://ns.example.org/m\u00e9tadonn\u00e9es/v1")
    return [None, DEFAULT_NS, DEFAULT_NS + "x", DEFAULT_NS.upper(), DEFAULT_NS.rstrip("a"), "c", "bc", "C", "fmt", "FMT", "fmt/", "/fmt",
            "fmt/../x", "x", "..", ".", "a/b", "a\\b", "a%2Fb", "%", "*", "?", "-rf", "$HOME", "tmp", "objects", "fmt_delete",
            nfc, unicodedata.normalize("NFD", nfc), "\u212b", "\u00c5", "\U0001F600", "f" * 3000 + "1", "f" * 3000 + "2",
            "\u6f22" * 1100 + "a", "\u6f22" * 1100 + "b", hashlib.sha256(b"x").hexdigest(), "a\x00b", "\x01"]


def _format_first(i):
    """(pid, format) pairs on ONE pid: for the i-th format f1 of the alphabet and every other format f2, documents stored under
    f1 and f2 never stand in for, overwrite or delete one another."""
    from hashstore.filehashstore import FileHashStore
    fmts = format_alphabet()
    f1 = fmts[i]
    root = os.path.join(common.scratch(), "c18-fmt-%d" % i)
    inp = {}
    for k, v in (("D1", D1), ("D2", D2)):
        inp[k] = os.path.join(common.scratch(), "c18fin_%s" % k)
        with open(inp[k], "wb") as f:
            f.write(v)
    res, n = [], 0
    import shutil

    def sm(store, pid, doc, fmt):
        return store.store_metadata(pid, doc) if fmt is None else store.store_metadata(pid, doc, fmt)

    def rm(store, pid, fmt):
        try:
            st = store.retrieve_metadata(pid) if fmt is None else store.retrieve_metadata(pid, fmt)
            try:
                return st.read()
            finally:
                st.close()
        except Exception as e:  # noqa: BLE001
            return type(e).__name__

    def dm(store, pid, fmt):
        return store.delete_metadata(pid, DEFAULT_NS) if fmt is None else store.delete_metadata(pid, fmt)

    for j, f2 in enumerate(fmts):
        if j == i or {f1, f2} == {None, DEFAULT_NS}:
            continue  # (an omitted format IS the default namespace)
        for pid in ("pid", "p" if (i + j) % 3 == 0 else None):
            if pid is None:
                continue
            shutil.rmtree(root, ignore_errors=True)
            store = FileHashStore(common.props(root))
            errs = []
            n += 1
            try:
                sm(store, pid, inp["D1"], f1)
                if rm(store, pid, f2) in (D1, D2):
                    errs.append("a document stored under one format is returned for another format")
                sm(store, pid, inp["D2"], f2)
                if rm(store, pid, f1) != D1:
                    errs.append("storing under one format changed the document of another format")
                if rm(store, pid, f2) != D2:
                    errs.append("round trip of the second format fails")
                dm(store, pid, f2)
                if rm(store, pid, f1) != D1:
                    errs.append("deleting one format's document removed or changed another format's document")
                if rm(store, pid, f2) in (D1, D2):
                    errs.append("a deleted document is still served (under its own or through another format)")
                sm(store, pid, inp["D2"], f2)
                dm(store, pid, f1)
                if rm(store, pid, f2) != D2:
                    errs.append("deleting one format's document removed or changed another format's document")
                store.delete_metadata(pid)
                if rm(store, pid, f1) in (D1, D2) or rm(store, pid, f2) in (D1, D2):
                    errs.append("delete_metadata(pid) left a document behind")
                left = [r for r, b in snapshot(root).items() if b is not None and r.startswith("metadata/") and "/tmp" not in r]
                if left:
                    errs.append("files remain under metadata/ after all documents were deleted")
            except Exception as e:  # noqa: BLE001
                errs.append("script raised %s" % type(e).__name__)
            for e in sorted(set(errs)):
                res.append(({"kind": "format-alias", "what": e}, {"pid": pid, "formats": [repr(f1)[:80], repr(f2)[:80]]}))
    shutil.rmtree(root, ignore_errors=True)
    return n, res


def format_pairs(rep):
    fmts = format_alphabet()
    n = 0
    for cnt, res in pmap(_format_first, list(range(len(fmts)))):
        n += cnt
        for sig, det in res:
            rep.violation(sig, det)
    rep.coverage["format_pairs"] = {"formats": len(fmts), "scripts": n,
                                    "rule": "all ordered pairs of a %d-element format alphabet (omitted, default namespace and near "
                                            "misses, case variants, NFC / NFD and compatibility-equivalent spellings, path-like, "
                                            "3000-character strings differing in the last character, marker- and directory-like "
                                            "names) on one pid" % len(fmts)}


def triple_core():
    import unicodedata
    nfc = unicodedata.normalize("NFC", "caf\u00e9")
    return ["a", "ab", "abc", "b", "bc", "c", "A", "a/b", "../a", "a_delete", nfc, unicodedata.normalize("NFD", nfc),
            hashlib.sha256(b"a").hexdigest(), "a" + DEFAULT_NS[:6]]


def _triple_first(i):
    """THREE identifiers at once: x = the i-th element of the core, every ordered pair (y, z) of two others.  One object is
    shared by all three, each has a document (formats chosen so that pid + format coincide wherever one identifier is a prefix
    of another); after every mutating step on one identifier the other two must read exactly what a three-entry model says."""
    from hashstore.filehashstore import FileHashStore
    core = triple_core()
    x = core[i]
    root = os.path.join(common.scratch(), "c18-tri-%d" % i)
    inp = {}
    for k, v in (("A", A), ("B", B), ("D1", D1), ("D2", D2)):
        inp[k] = os.path.join(common.scratch(), "c18tin_%s" % k)
        with open(inp[k], "wb") as f:
            f.write(v)
    docs = {"D1": D1, "D2": D2}
    cidA = hashlib.sha256(A).hexdigest()
    res, n = [], 0
    import shutil

    def fmt_for(p_, others):
        # a format that makes pid + format equal to (longer pid) + "c" when p_ is a proper prefix of another identifier
        for o in others:
            if o.startswith(p_) and len(o) > len(p_):
                return o[len(p_):] + "c"
        return "c"

    for y in core:
        for z in core:
          for store_order in ("xyz", "yzx"):  # the identifier deleted first is the FIRST resp. the LAST line of the shared list
              if len({x, y, z}) < 3:
                  continue
              n += 1
              shutil.rmtree(root, ignore_errors=True)
              store = FileHashStore(common.props(root))
              ids = (x, y, z)
              fmts = {p_: fmt_for(p_, [o for o in ids if o != p_]) for p_ in ids}
              model = {}
              errs = []

              def audit(step):
                  for p_ in ids:
                      want = model.get(p_)
                      try:
                          st = store.retrieve_object(p_)
                          got = st.read()
                          st.close()
                      except Exception as e:  # noqa: BLE001
                          got = None
                      if (want[0] if want else None) != got:
                          errs.append("after %s: an identifier that was not operated on reads other object bytes (or none / some) than before" % step)
                          return
                      try:
                          m = store.retrieve_metadata(p_, fmts[p_])
                          gm = m.read()
                          m.close()
                      except Exception as e:  # noqa: BLE001
                          gm = None
                      if (want[1] if want else None) != gm:
                          errs.append("after %s: an identifier that was not operated on reads another document (or none / some) than before" % step)
                          return

              try:
                  for k, p_ in enumerate(ids if store_order == "xyz" else (y, z, x)):
                      store.store_object(p_, inp["A"])
                      d = "D1" if k % 2 == 0 else "D2"
                      store.store_metadata(p_, inp[d], fmts[p_])
                      model[p_] = (A, docs[d])
                      audit("store of #%d" % k)
                  store.delete_object(x)
                  model.pop(x)
                  audit("delete_object(first)")
                  store.tag_object(x, cidA)
                  model[x] = (A, None)
                  audit("re-tag of the first")
                  store.delete_metadata(y, fmts[y])
                  model[y] = (A, None)
                  audit("delete_metadata(second, format)")
                  store.store_metadata(y, inp["D1"], fmts[y])
                  model[y] = (A, D1)
                  store.delete_metadata(z)
                  model[z] = (A, None)
                  audit("delete_metadata(third)")
                  store.delete_object(y)
                  model.pop(y)
                  audit("delete_object(second)")
                  store.delete_object(z)
                  model.pop(z)
                  audit("delete_object(third)")
                  store.delete_object(x)
                  model.pop(x)
                  audit("delete_object(first) again")
                  left = [r for r, b in snapshot(root).items() if b is not None and r != "hashstore.yaml" and "/tmp" not in r]
                  if left:
                      errs.append("files remain after all three identifiers were deleted")
              except Exception as e:  # noqa: BLE001
                  errs.append("script raised %s" % type(e).__name__)
              for e in sorted(set(errs)):
                  res.append(({"kind": "triple", "what": e}, {"ids": [repr(v)[:40] for v in ids], "formats": [fmts[p_] for p_ in ids]}))
    shutil.rmtree(root, ignore_errors=True)
    return n, res


def triples(rep):
    core = triple_core()
    n = 0
    for cnt, res in pmap(_triple_first, list(range(len(core)))):
        n += cnt
        for sig, det in res:
            rep.violation(sig, det)
    rep.coverage["triples"] = {"core_identifiers": len(core), "scripts": n,
                               "rule": "all ordered triples of distinct identifiers of a %d-element core (prefix chains a / ab / abc and b / bc, "
                                       "case variant, path-like, marker-like, NFC / NFD, digest-like, pid + namespace prefix), one shared "
                                       "object, documents under concatenation-colliding formats, model checked after each of 10 steps" % len(core)}


def main(tier):
    global TIER
    TIER = tier
    rep = common.Report("C18", tier, "exploration")
    format_pairs(rep)
    triples(rep)
    ids = identifiers()
    n = 0
    for cnt, res in pmap(_first, list(range(len(ids)))):
        n += cnt
        for sig, det in res:
            rep.violation(sig, det)
    rep.coverage.update({
        "evaluations": n, "distinct_nontrivial": len(ids) * (len(ids) - 1), "exhaustive": True, "identifiers": len(ids),
        "rule": "all ordered pairs (x, y) of a %d-element adversarial identifier alphabet (path-like, '.', '..', shell/glob "
                "metacharacters, control characters, NUL, NFC/NFD, non-BMP, prefix/suffix/case variants, '*_delete', names of "
                "store directories, 5000 characters, a pid equal to a cid / to H(another pid)), one object shared, metadata "
                "under default / path-like / concatenation-colliding formats; 12-step script with the bystander checked "
                "after every step; every mutating file-system operation recorded and matched against the hash-only path "
                "grammar; distinct = ordered pairs" % len(ids),
    })
    rep.assumptions += ["the identifier space is infinite; what is exhaustive is the product over this alphabet"]
    return rep.finish([{"x": "../../etc/passwd", "y": "a/b"}])


def replay(rep):
    print(rep["replay"])
    return 1
