"""Replay of a sequential counterexample (history of operation descriptors) without exploring."""
import os

from .. import common, ops as O


def replay_history(spec, rep):
    spec.setup()
    tree, aux = spec.initial()
    hist = rep["replay"].get("history") or []
    root = os.path.join(common.scratch(), "store")
    bad = 0
    for op in hist:
        op = tuple(op)
        nt, naux, viol, obs = spec.transition(root, tree, aux, op)
        print("%-40s -> %s" % (O.name(op), obs))
        for sig, det in viol:
            bad += 1
            print("   VIOLATION:", sig.get("what"), "|", det.get("detail", ""))
        tree = nt
        if naux is None:
            break
        aux = naux
    print("replayed %d operations, %d violations" % (len(hist), bad))
    return 1 if bad else 0
