"""C04 - no call ever removes an object that some pid still references (engine S, closure)."""
from .. import common
from ..specs import ModelSpec
from ._s import run_spec
from .seqreplay import replay_history


class C04Spec(ModelSpec):
    prop = "C04"
    pids = ("p", "xp", "r\u00e9")  # 'p' is a suffix of 'xp'; the third pid is not ASCII (bytes != characters)
    api_probe = True

    def __init__(self, tier):
        super().__init__()
        self.key_dirs = tier == "thorough"
        ops = []
        for pid in self.pids:
            ops += [("store", pid, "A", None), ("tag", pid, "A"), ("delete", pid)]
        ops += [("store", "r\u00e9", "B", None), ("tag", "r\u00e9", "B"),
                ("dii", "A", "badsize"), ("dii", "A", "badck"), ("dii", "A", "badboth"),
                ("dii", "B", "badsize"), ("dii", "B", "badck"), ("dii", "A", "badck:sha224+size"),
                ("store", "p", "A", "badck:sha256"), ("store", "xp", "A", "badsize"), ("store", "xp", "A", "badck:sha3_256"),
                ("store_nopid", "A"),
                # the same digest spelled in upper case is a different cid string: it must not alias the object
                ("tag", "r\u00e9", "A^"), ("dii", "A^", "badsize"),
                ("store_meta", "p", None, "v1"), ("delete_meta", "p", None), ("delete_meta", "p", "c")]
        self.ops = ops
        self.formats = ("c",)


def t_scenarios(tier):
    """The same property while calls overlap: a removal observer on every step of every interleaving."""
    S = lambda p, c: ("store", p, c, None)
    menu = [("xA||t1A", "Aunref", [("dii", "A", "badsize")], [("tag", "p1", "A")]),
            ("xA||s1A", "Aunref", [("dii", "A", "badsize")], [S("p1", "A")]),
            ("xA||d1", "p1A", [("dii", "A", "badck")], [("delete", "p1")]),
            ("d1||t2A", "p1A", [("delete", "p1")], [("tag", "p2", "A")]),
            ]
    if tier == "thorough":
        menu += [("xA||xA", "Aunref", [("dii", "A", "badsize")], [("dii", "A", "badck")]),
                 ("d1||s2A", "p1A", [("delete", "p1")], [S("p2", "A")]),
                 ("d1||d2", "p1A,p2A", [("delete", "p1")], [("delete", "p2")]),
                 ("d1||s1A;d1?", "p1A", [("delete", "p1")], [S("p2", "A"), ("delete", "p2")])]
    return [{"name": n, "init": st, "threads": {"T1": a, "T2": b}, "pids": ("p1", "p2"), "observer": "removal",
             "judge": "liveness", "reduce": False} for n, st, a, b in menu]


def main(tier):
    rep = common.Report("C04", tier, "model_checking")
    run_spec(rep, C04Spec(tier), "closure", time_cap=120 if tier == "quick" else 3000)
    from ._t import run_scenarios
    results = run_scenarios(rep, t_scenarios(tier))
    per = {}
    for r in results:
        from ._t import usable
        if not usable(rep, r):
            continue
        per[r["name"]] = {"executions": r["executions"], "states": r["states"], "steps_observed": r["transitions"]}
        rep.coverage["states"] += r["states"]
        rep.coverage["transitions"] += r["transitions"]
        rep.coverage["traces_validated_against_impl"] += r["executions"]
        for v, ch in r["step_violations"]:
            rep.violation({"scenario": r["name"], "part": "interleavings", "what": v.split(" although")[0] +
                           " although a pid was completely bound to it"},
                          {"spec": r["spec"], "schedule": ch, "what": v})
    rep.coverage["interleaving_scenarios"] = per
    rep.assumptions.append("concurrent part: after every scheduling step of every interleaving of a remover "
                           "(delete_if_invalid_object / delete_object) with a tagger / storer, an object file may "
                           "disappear only if no pid was completely bound to it just before that step "
                           "(explored WITHOUT the persistent-set reduction, because the observer relates two "
                           "different resources)")
    rep.assumptions += ["alphabet: pids p/q/r sharing content A (r also B), wrong validation data, rejected stores, metadata calls",
                        "after every transition each bound pid is retrieved through the API and compared byte for byte"]
    return rep.finish(rep._samples)


def replay(rep):
    if "schedule" in rep["replay"]:
        from ._t import replay_schedule
        return replay_schedule(rep)
    return replay_history(C04Spec("thorough"), rep)
