"""C04 - no call ever removes an object that some pid still references (engine S, closure)."""
from .. import common
from ..specs import ModelSpec
from ._s import run_spec
from .seqreplay import replay_history


class C04Spec(ModelSpec):
    prop = "C04"
    pids = ("p", "q", "r")
    api_probe = True

    def __init__(self, tier):
        super().__init__()
        self.key_dirs = tier == "thorough"
        ops = []
        for pid in self.pids:
            ops += [("store", pid, "A", None), ("tag", pid, "A"), ("delete", pid)]
        ops += [("store", "r", "B", None), ("tag", "r", "B"),
                ("dii", "A", "badsize"), ("dii", "A", "badck"), ("dii", "A", "badboth"),
                ("dii", "B", "badsize"), ("dii", "B", "badck"), ("dii", "A", "badck:sha224+size"),
                ("store", "p", "A", "badck:sha256"), ("store", "q", "A", "badsize"), ("store", "q", "A", "badck:sha3_256"),
                ("store_nopid", "A"),
                ("store_meta", "p", None, "v1"), ("delete_meta", "p", None), ("delete_meta", "p", "c")]
        self.ops = ops
        self.formats = ("c",)


def main(tier):
    rep = common.Report("C04", tier, "model_checking")
    run_spec(rep, C04Spec(tier), "closure", time_cap=240 if tier == "quick" else 3000)
    rep.assumptions += ["alphabet: pids p/q/r sharing content A (r also B), wrong validation data, rejected stores, metadata calls",
                        "after every transition each bound pid is retrieved through the API and compared byte for byte"]
    return rep.finish(rep._samples)


def replay(rep):
    return replay_history(C04Spec("thorough"), rep)
