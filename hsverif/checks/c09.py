"""C09 - permanent files are never observable half-written.
Part a (engine T): the observer invariant I9 after every step of every interleaving of a writer
with a concurrent reader (and of single writers), for several content sizes.
Part b (engine F): I9 on the kernel-visible tree before every file-system operation (crash image)."""
import os

from .. import common, env, fscen, i9, tscen, ops as O
from ..par import pmap
from ._t import run_scenarios, replay_schedule
from .c10 import crash_states
from .c13 import site_class

SIZES = ["E", "O", "K", "L"]  # 0, 1, one buffer, three buffers + 7 bytes


def scenarios(tier):
    out = []
    for c in SIZES:
        st = ("store", "p1", c, None)
        rd = ("retrieve", "p1")
        out.append({"name": "store(p1,%s) new || retrieve(p1)" % c, "init": "empty",
                    "threads": {"T1": [st], "T2": [rd]}, "pids": ("p1", "p2"), "observer": True})
        out.append({"name": "store(p1,%s) single writer" % c, "init": "empty",
                    "threads": {"T1": [st]}, "pids": ("p1", "p2"), "observer": True})
    out += [
        {"name": "store(p2,A) duplicate || retrieve(p1)", "init": "p1A", "pids": ("p1", "p2"), "observer": True,
         "threads": {"T1": [("store", "p2", "A", None)], "T2": [("retrieve", "p1")]}},
        {"name": "delete(p1) || retrieve(p1)", "init": "p1A", "pids": ("p1", "p2"), "observer": True,
         "threads": {"T1": [("delete", "p1")], "T2": [("retrieve", "p1")]}},
        {"name": "delete(p1) shared || retrieve(p2)", "init": "p1A,p2A", "pids": ("p1", "p2"), "observer": True,
         "threads": {"T1": [("delete", "p1")], "T2": [("retrieve", "p2")]}},
        {"name": "tag(p2,A) || retrieve(p2)", "init": "p1A", "pids": ("p1", "p2"), "observer": True,
         "threads": {"T1": [("tag", "p2", "A")], "T2": [("retrieve", "p2")]}},
        {"name": "tag(p1,A) single writer", "init": "Aunref", "pids": ("p1", "p2"), "observer": True,
         "threads": {"T1": [("tag", "p1", "A")]}},
        {"name": "delete(p1) single writer", "init": "p1A+meta", "pids": ("p1", "p2"), "observer": True,
         "threads": {"T1": [("delete", "p1")]}},
    ]
    from ..common import DEFAULT_NS
    for doc in ("v1", "v2"):
        for init in ("empty", "meta"):
            out.append({"name": "store_metadata(%s) %s || retrieve_metadata" % (doc, "new" if init == "empty" else "overwrite"),
                        "init": init, "pids": ("p1",), "formats": (DEFAULT_NS,), "observer": True,
                        "threads": {"T1": [("store_meta", "p1", None, doc)], "T2": [("retrieve_meta", "p1", None)]}})
    # two writers: same pid, different formats (different document locks) and the same document
    out.append({"name": "store_metadata(v2) || store_metadata(f2,v1) same pid", "init": "empty", "pids": ("p1",),
                "formats": (DEFAULT_NS, "f2"), "observer": True,
                "threads": {"T1": [("store_meta", "p1", None, "v2")], "T2": [("store_meta", "p1", "f2", "v1")]}})
    out.append({"name": "store_metadata(v2) || store_metadata(v1) same document", "init": "meta", "pids": ("p1",),
                "formats": (DEFAULT_NS,), "observer": True,
                "threads": {"T1": [("store_meta", "p1", None, "v2")], "T2": [("store_meta", "p1", None, "v1")]}})
    if tier == "thorough":
        out.append({"name": "store(p1,L) || store(p2,L) same new content", "init": "empty", "pids": ("p1", "p2"), "time_cap": 400,
                    "observer": True, "threads": {"T1": [("store", "p1", "L", None)], "T2": [("store", "p2", "L", None)]}})
    return out


CRASH_CASES = [
    (("store", "p", "E", None), "q=B", "store empty content"),
    (("store", "p", "O", None), "q=B", "store 1-byte content"),
    (("store", "p", "K", None), "q=B", "store one-buffer content"),
    (("store", "p", "L", None), "q=B", "store multi-buffer content"),
    (("store", "p", "A", None), "q=A", "store duplicate content"),
    (("tag", "p", "A"), "q=A", "tag, cid list present"),
    (("tag", "p", "A"), "A-unreferenced", "tag, cid list absent"),
    (("delete", "p"), "p=A", "delete sole reference"),
    (("delete", "p"), "p=A,q=A", "delete shared reference"),
    (("delete", "p"), "p=A+docs,q=B", "delete with metadata"),
    (("store_meta", "p", None, "v1"), "q=B", "store metadata new"),
    (("store_meta", "p", None, "v2"), "p=A+docs,q=B", "store metadata overwrite (multi-buffer)"),
    (("store_meta", "p", "f2", "v1"), "p=A+docs,q=B", "store metadata overwrite (other format)"),
]


def _crash_job(case):
    op, state, label = case
    base, states, init, root, c = crash_states(case)
    docs, cids = i9.allowed_sets(c, init)
    viol = []
    occ = {}
    for i, sop, tree in states:
        k = site_class(sop) if sop[0] != "end" else "end"
        name = "%s#%d" % (k, occ.get(k, 0))
        occ[k] = occ.get(k, 0) + 1
        for where, what in i9.check_tree(tree, fscen.LAYOUT.algo, docs, cids):
            viol.append(({"case": label, "part": "crash", "crash_before": name, "what": what},
                         {"call": list(op), "state": state, "crash_before_site": i, "site_op": list(sop)}))
    return {"points": len(base.snapshots), "states": len(states), "violations": viol, "label": label}


def _faulted_crash_job(case):
    """'At every instant during any API call' includes calls that an I/O error is about to fail: for every fault site of the
    call (one-off and persistent EIO) the call is run again with that fault, and every kernel-visible tree it passes
    through - a crash image, or what a concurrent reader sees - must satisfy I9 as well."""
    import errno as _errno
    from .. import engine_f
    op, state, label = case
    c = fscen.ctx()
    root = os.path.join(common.scratch(), "c09-fcrash")
    init = fscen.init_tree(state)
    env.install()
    base = engine_f.run_call(root, init, fscen.P, op, c)
    docs, cids = i9.allowed_sets(c, init)
    viol, runs, images = [], 0, 0
    seen = set()
    occ = {}
    for i, sop in enumerate(base.sites):
        if not engine_f.is_fault_site(sop):
            continue
        k = site_class(sop)
        name = "%s#%d" % (k, occ.get(k, 0))
        occ[k] = occ.get(k, 0) + 1
        for persistent in (False, True):
            r = engine_f.run_call(root, init, fscen.P, op, c, fault=(i, _errno.EIO, persistent), snapshots=True)
            if not r.injected:
                continue
            runs += 1
            for j, files, dirs in r.snapshots:
                if j <= i:
                    continue  # identical to the unfaulted run up to the fault
                t = engine_f.tree_of(files, dirs)
                key = common.tree_key(t)
                if key in seen:
                    continue
                seen.add(key)
                images += 1
                for where, what in i9.check_tree(t, fscen.LAYOUT.algo, docs, cids):
                    viol.append(({"case": label, "part": "crash-after-fault", "fault_at": name,
                                  "mode": "persistent" if persistent else "one-off", "what": what},
                                 {"call": list(op), "state": state, "fault_site": i, "snapshot_before_site": j}))
    return {"runs": runs, "images": images, "violations": viol}


def _short_job(case):
    """Every raw write(2) of the call, in turn, transfers only half of its buffer: whatever the call then reports,
    the files at permanent addresses must satisfy I9."""
    from .. import engine_f
    op, state = case
    c = fscen.ctx()
    root = os.path.join(common.scratch(), "c09-short")
    init = fscen.init_tree(state)
    env.install()
    base = engine_f.run_call(root, init, fscen.P, op, c)
    docs, cids = i9.allowed_sets(c, init)
    res, n = [], 0
    for i, sop in enumerate(base.sites):
        if sop[0] != "write" or sop[1] != "write":
            continue
        r = engine_f.run_call(root, init, fscen.P, op, c, fault=(i, "SHORT", False))
        if not r.injected:
            continue
        n += 1
        for where, what in i9.check_tree(common.snapshot(root), fscen.LAYOUT.algo, docs, cids):
            res.append(({"part": "short-write", "call": op[0], "what": what + " after a short write"},
                        {"call": list(op), "state": state, "site": i, "outcome": r.outcome[0]}))
    return n, res


def main(tier):
    rep = common.Report("C09", tier, "model_checking")
    results = run_scenarios(rep, scenarios(tier))
    tot = {"executions": 0, "states": 0, "transitions": 0}
    per = {}
    for r in results:
        from ._t import usable
        if not usable(rep, r):
            continue
        for k in tot:
            tot[k] += r[k]
        per[r["name"]] = {"executions": r["executions"], "states": r["states"], "steps_observed": r["transitions"]}
        for v, ch in r["step_violations"]:
            rep.violation({"scenario": r["name"], "part": "interleaving", "what": v},
                          {"spec": r["spec"], "schedule": ch, "what": v})
        # a concurrent reader gets complete bytes of a supplied content / version, or an error class
        from ..engine_t import _valkey
        c = tscen.ctx()
        complete = {_valkey(b) for b in list(c.inputs.data.values()) + list(c.docs.data.values())}
        for vd in r["verdicts"]:
            t = vd["terminal"]
            if "deadlock" in t:
                rep.violation({"scenario": r["name"], "part": "reader", "what": "deadlock"},
                              {"spec": r["spec"], "schedule": vd["schedule"], "terminal": t})
                continue
            for n, prog in r["spec"]["threads"].items():
                for i, op in enumerate(prog):
                    if op[0] in ("retrieve", "retrieve_meta") and t["outcomes"][n][i] == "ok" \
                            and t["values"][n][i] not in complete:
                        rep.violation({"scenario": r["name"], "part": "reader",
                                       "what": "a concurrent reader was served bytes that are no complete content"},
                                      {"spec": r["spec"], "schedule": vd["schedule"], "terminal": t})
    nshort = 0
    for cnt, res in pmap(_short_job, [(("store", "p", "L", None), "q=B"), (("store", "p", "K", None), "q=B"),
                                      (("store_meta", "p", None, "v2"), "p=A+docs,q=B")]):
        nshort += cnt
        for sig, det in res:
            rep.violation(sig, det)
    rep.coverage["short_write_runs"] = nshort
    pts = sts = 0
    for r in pmap(_crash_job, CRASH_CASES):
        pts += r["points"]
        sts += r["states"]
        for sig, det in r["violations"]:
            rep.violation(sig, det)
    fruns = fimages = 0
    for r in pmap(_faulted_crash_job, CRASH_CASES):
        fruns += r["runs"]
        fimages += r["images"]
        for sig, det in r["violations"]:
            rep.violation(sig, det)
    rep.coverage["faulted_runs_with_crash_images"] = fruns
    rep.coverage["distinct_crash_images_after_a_fault"] = fimages
    sts += fimages
    rep.coverage.update({
        "states": tot["states"] + sts, "transitions": tot["transitions"] + pts,
        "traces_validated_against_impl": tot["executions"] + len(CRASH_CASES),
        "interleaving_scenarios": len(results), "executions": tot["executions"], "steps_with_observer": tot["transitions"],
        "crash_points": pts, "distinct_crash_images": sts, "exhaustive": True, "per_scenario": per,
    })
    rep.assumptions += ["the observer inspects the kernel-visible tree after every scheduling step, including after every "
                        "raw write(2)/truncate of a shared file; unflushed user-space buffers are not on disk",
                        "cid reference lists are not covered by this property (they are rewritten in place under the cid lock)"]
    return rep.finish([{"scenario": results[0]["name"], "steps": results[0]["transitions"]}])


def replay(rep):
    r = rep["replay"]
    if "schedule" in r:
        return replay_schedule(rep)
    from .c10 import replay as r10
    return r10(rep)
