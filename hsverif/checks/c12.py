"""C12 - concurrent metadata operations are atomic and linearizable (engine T)."""
import itertools

from .. import common
from ..common import DEFAULT_NS
from ._t import run_scenarios, finish_t, replay_schedule

MENU = {
    "M1": ("store_meta", "p1", None, "v1"), "M2": ("store_meta", "p1", None, "v2"),
    "R": ("retrieve_meta", "p1", None), "Df": ("delete_meta", "p1", DEFAULT_NS), "Da": ("delete_meta", "p1", None),
    "DO": ("delete", "p1"),
    "M1f": ("store_meta", "p1", "f2", "v1"), "Rf": ("retrieve_meta", "p1", "f2"), "Dff": ("delete_meta", "p1", "f2"),
}
FORMATS = (DEFAULT_NS, "f2")


def scenarios(tier):
    out = []
    core = ["M1", "M2", "R", "Df", "Da", "DO"]
    pairs = list(itertools.combinations_with_replacement(core, 2))
    pairs += [("M1f", "Da"), ("M1f", "DO"), ("Rf", "Da"), ("Dff", "Da"), ("M1f", "Dff"), ("M1", "M1f")]
    for a, b in pairs:
        if (a, b) == ("R", "R"):
            continue
        uses_do = "DO" in (a, b)
        two = any(x in ("M1f", "Rf", "Dff") for x in (a, b))
        for st in ("absent", "present"):
            if uses_do:
                init = "p1A" if st == "absent" else ("p1A+meta2" if two else "p1A+meta")
            else:
                init = "empty" if st == "absent" else ("meta2" if two else "meta")
            if st == "absent" and all(x in ("R", "Df", "Da", "Rf", "Dff") for x in (a, b)):
                continue  # nothing to read or delete
            out.append({"name": "%s||%s doc %s" % (a, b, st), "init": init, "formats": FORMATS, "pids": ("p1",),
                        "threads": {"T1": [MENU[a]], "T2": [MENU[b]]}})
    out.append({"name": "Da||Da two documents", "init": "meta2", "formats": FORMATS, "pids": ("p1",),
                "threads": {"T1": [MENU["Da"]], "T2": [MENU["Da"]]}})
    # a delete-all walking two documents while a single-format delete removes the one it has listed first (one of the two
    # formats is listed first - both are run)
    out.append({"name": "Df||Da two documents", "init": "meta2", "formats": FORMATS, "pids": ("p1",),
                "threads": {"T1": [MENU["Df"]], "T2": [MENU["Da"]]}})
    out.append({"name": "Dff||Da two documents", "init": "meta2", "formats": FORMATS, "pids": ("p1",),
                "threads": {"T1": [MENU["Dff"]], "T2": [MENU["Da"]]}})
    # the pid is deleted and, by another thread, bound again WITH a new document: the delete's own removal of the pid's
    # documents must not reach past its own completion
    # (tag_object, not store_object: a store overlapping the delete is refused - known finding C07-R3 - and would hide this)
    out.append({"name": "DO||t1A;M1 from p1A+meta", "init": "p1A+meta", "formats": FORMATS, "pids": ("p1",),
                "threads": {"T1": [MENU["DO"]], "T2": [("tag", "p1", "A"), MENU["M1"]]}})
    # delete_object of a pid that has documents but NO object (it raises) beside a writer / reader of a document
    for other in ("M2", "R", "Df"):
        out.append({"name": "DO||%s pid has a document but no object" % other, "init": "meta", "formats": FORMATS, "pids": ("p1",),
                    "threads": {"T1": [MENU["DO"]], "T2": [MENU[other]]}})
    out.append({"name": "M1||R||Df from meta (pre-emption bound 2)", "init": "meta", "bound": 2, "formats": FORMATS,
                "pids": ("p1",), "threads": {"T1": [MENU["M1"]], "T2": [MENU["R"]], "T3": [MENU["Df"]]}})
    out.append({"name": "Df||Df||M1f from meta (pre-emption bound 2)", "init": "meta", "bound": 2, "formats": FORMATS,
                "pids": ("p1",), "threads": {"T1": [MENU["Df"]], "T2": [MENU["Df"]], "T3": [MENU["M1f"]]}})
    out.append({"name": "M1||M1f doc absent (pristine directories)", "init": "empty", "pristine": True, "formats": FORMATS,
                "pids": ("p1",), "threads": {"T1": [MENU["M1"]], "T2": [MENU["M1f"]]}})
    out.append({"name": "Df||Df||M1 from meta (pre-emption bound 2)", "init": "meta", "bound": 2, "formats": FORMATS,
                "pids": ("p1",), "threads": {"T1": [MENU["Df"]], "T2": [MENU["Df"]], "T3": [MENU["M1"]]}})
    if tier == "thorough":
        out.append({"name": "Da||DO two documents", "init": "p1A+meta2", "formats": FORMATS, "pids": ("p1",),
                    "threads": {"T1": [MENU["Da"]], "T2": [MENU["DO"]]}})
        for tri, init in [(("M1", "M2", "R"), "meta"), (("M1", "Da", "R"), "meta"), (("Da", "Da", "M1"), "meta2"),
                          (("M1", "DO", "R"), "p1A+meta"), (("Df", "Da", "M2"), "meta"), (("M1", "M2", "Da"), "empty")]:
            out.append({"name": "%s||%s||%s from %s (pre-emption bound 2)" % (tri + (init,)), "init": init, "bound": 2,
                        "formats": FORMATS, "pids": ("p1",),
                        "threads": {"T%d" % (i + 1): [MENU[x]] for i, x in enumerate(tri)}})
        out.append({"name": "M1;R||M2 doc absent", "init": "empty", "formats": FORMATS, "pids": ("p1",),
                    "threads": {"T1": [MENU["M1"], MENU["R"]], "T2": [MENU["M2"]]}})
    # the ORDER in which a directory is listed is arbitrary: every scenario in which a delete-all / delete_object walks two
    # documents is run again with the listing reversed (quick: the delete-all ones); and a pid with THREE documents
    out.append({"name": "M1f||Da three documents", "init": "meta3", "formats": FORMATS + ("f3",), "pids": ("p1",),
                "threads": {"T1": [MENU["M1f"]], "T2": [MENU["Da"]]}})
    out.append({"name": "Dff||Da three documents", "init": "meta3", "formats": FORMATS + ("f3",), "pids": ("p1",),
                "threads": {"T1": [MENU["Dff"]], "T2": [MENU["Da"]]}})
    for sp in list(out):
        walks = any(op in (MENU["Da"], MENU["DO"]) for prog in sp["threads"].values() for op in prog)
        if walks and sp["init"] in ("meta2", "p1A+meta2", "meta3") and (
                tier == "thorough" or any(op == MENU["Da"] for prog in sp["threads"].values() for op in prog)):
            out.append(dict(sp, name=sp["name"] + " [listing reversed]", listing="reverse"))
    from .c08 import faulted_scenarios
    for sp in faulted_scenarios(tier):
        if not all(op[0] in ("store_meta", "delete_meta") for prog in sp["threads"].values() for op in prog):
            continue
        sp = {k: v for k, v in sp.items() if k not in ("judge", "followups")}
        sp["pids"] = ("p1",)
        sp["formats"] = FORMATS
        out.append(sp)
    for s in out:
        s["observer"] = True
        # the instance is used on afterwards: a delete-all must leave no document of the pid, as after a sequential order
        s["followups"] = [("delete_meta", "p1", None)]
        s["after"] = True
    out += line_level_scenarios(tier, out)
    return out


def line_level_scenarios(tier, base):
    """Engine L: every two-thread scenario of this check again with ONE pre-emption at every source line of the package
    (thorough: also at every bytecode for the same-document pairs), plus pairs on different pids, which share nothing
    but the store instance."""
    from .. import tscen
    extra = [
        {"name": "store_metadata(p1,v2)||store_metadata(p2,v1) from empty", "init": "empty", "formats": FORMATS,
         "pids": ("p1", "p2"), "threads": {"T1": [("store_meta", "p1", None, "v2")], "T2": [("store_meta", "p2", None, "v1")]}},
        {"name": "retrieve_metadata(p1)||store_metadata(p2,f2,v2) from meta", "init": "meta", "formats": FORMATS,
         "pids": ("p1", "p2"), "threads": {"T1": [("retrieve_meta", "p1", None)], "T2": [("store_meta", "p2", "f2", "v2")]}},
        {"name": "delete_metadata(p1)||store_metadata(p2,v1) from meta2", "init": "meta2", "formats": FORMATS,
         "pids": ("p1", "p2"), "threads": {"T1": [("delete_meta", "p1", None)], "T2": [("store_meta", "p2", None, "v1")]}},
    ]
    for sp in extra:
        sp["followups"] = [("delete_meta", "p1", None), ("delete_meta", "p2", None)]
        sp["after"] = True
    out = []
    for sp in list(base) + extra:
        if len(sp["threads"]) != 2 or any(len(v) != 1 for v in sp["threads"].values()) or sp.get("faults"):
            continue  # (engine L injects no faults)
        sp = {k: v for k, v in sp.items() if k != "observer"}
        out += tscen.line_level(sp, "line", 1 if tier == "quick" else 2)
        if tier == "thorough" and "present" in sp["name"]:
            out += tscen.line_level(sp, "opcode", 4)
        if tier == "thorough" and sp["name"] in ("M1||M2 doc present", "M1||Da doc present", "M2||R doc present"):
            # every execution with at most TWO pre-emptions at source-line granularity
            out += [dict(j, time_cap=2400) for j in tscen.line_level(sp, "line", 16, lbound=2)]
    return out


def main(tier):
    rep = common.Report("C12", tier, "model_checking")
    results = run_scenarios(rep, scenarios(tier))
    rep.assumptions += [
        "the reader reads the returned stream to the end inside the controlled thread, so every raw read is a scheduling point",
        "oracle: per-call outcomes (reader: exact bytes or not-found) and final documents equal those of some sequential order",
        "at every scheduling point each metadata document on disk must be a complete supplied version (I9)",
        "line level (engine L): every execution of two calls with at most ONE pre-emption, placed at every source line of "
        "the package and every visible operation of either thread",
    ]
    return finish_t(rep, results)


def replay(rep):
    return replay_schedule(rep)
