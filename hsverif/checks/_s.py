"""Helpers shared by the engine-S checks."""
from .. import common, engine_s


def run_spec(rep, spec, label, **kw):
    res = engine_s.explore(spec, seed=common.SEED, **kw)
    for sig, det in res.violations:
        sig = dict(sig)
        sig["part"] = label
        rep.violation(sig, det)
    cov = rep.coverage
    cov["states"] = cov.get("states", 0) + res.states
    cov["transitions"] = cov.get("transitions", 0) + res.transitions
    cov["traces_validated_against_impl"] = cov.get("traces_validated_against_impl", 0) + res.transitions
    part = {
        "states": res.states, "transitions": res.transitions, "max_depth": res.max_depth,
        "closure_reached": res.closed, "cap_hit": res.cap, "alphabet": len(spec.ops),
        "pruned_violating_transitions": res.pruned, "distinct_outcomes": len(res.outcomes),
        "outcomes": {"%s->%s" % k: v for k, v in sorted(res.outcomes.items())},
        "dedup_key": "exact tree incl. empty directories" if spec.key_dirs else "tree without empty directories",
    }
    cov.setdefault("parts", {})[label] = part
    cov["exhaustive"] = cov.get("exhaustive", True) and (res.closed or res.cap is not None and res.cap.startswith("depth"))
    cov["closure_reached"] = cov.get("closure_reached", True) and res.closed
    rep._samples = getattr(rep, "_samples", []) + res.samples[:3]
    return res
