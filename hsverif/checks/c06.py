"""C06 - validation verdict is exactly 'size and checksum match the content' (complete product)."""
import hashlib
import os

from .. import common, ops as O
from ..absx import Layout, abstract
from ..common import ALL_ALGOS, pattern, restore, snapshot
from ..par import pmap
from .c02 import spellings

CONTENTS = {"s": pattern(10, 4), "m": pattern(2 * 4096 + 5, 5), "o": pattern(333, 6)}
TIER = "quick"


def _flip(h):
    return ("0" if h[0] != "0" else "1") + h[1:]


def _prior_trees():
    """prior state of the content: absent / present unreferenced / present referenced (by pid 'holder')."""
    from hashstore.filehashstore import FileHashStore
    out = {}
    for c, data in CONTENTS.items():
        path = os.path.join(common.scratch(), "c06_%s.bin" % c)
        with open(path, "wb") as f:
            f.write(data)
    for c in CONTENTS:
        path = os.path.join(common.scratch(), "c06_%s.bin" % c)
        for prior in ("absent", "unreferenced", "referenced"):
            root = os.path.join(common.scratch(), "c06-prep")
            restore(root, {})
            os.rmdir(root)
            s = FileHashStore(common.props(root))
            other = [x for x in CONTENTS if x != c][0]
            s.store_object("bystander", os.path.join(common.scratch(), "c06_%s.bin" % other))
            if prior == "unreferenced":
                s.store_object(None, path)
            elif prior == "referenced":
                s.store_object("holder", path)
            out[(c, prior)] = snapshot(root)
    return out


_TREES = None
_INDIR = None


def _cases(args):
    c, algo = args
    from hashstore.filehashstore import FileHashStore
    data = CONTENTS[c]
    other = CONTENTS[[x for x in CONTENTS if x != c][0]]
    path = os.path.join(_INDIR, "c06_%s.bin" % c)
    root = os.path.join(common.scratch(), "c06-%s-%s" % (c, algo))
    lay = Layout()
    cid = hashlib.sha256(data).hexdigest()
    true = hashlib.new(algo, data).hexdigest()
    sps = spellings(algo) if TIER == "thorough" else spellings(algo)[:3]
    cks = {"lower": true, "UPPER": true.upper(), "wrong": _flip(true), "other": hashlib.new(algo, other).hexdigest(),
           "wrong-nonascii": true[:-1] + "\uff10", "absent": None}  # last digit replaced by a full-width zero
    sizes = {"absent": None, "correct": len(data), "wrong+1": len(data) + 1}
    if TIER == "thorough":
        sizes["wrong-1"] = len(data) - 1
    res, n, classes = [], 0, set()
    for sp in sps:
        for ckk, ck in cks.items():
            for szk, sz in sizes.items():
                if ck is None and sz is None:
                    continue
                valid = (ck is None or ck.lower() == true) and (sz is None or sz == len(data))
                for prior in ("absent", "unreferenced", "referenced"):
                    for entry in ("store", "store+same-additional", "store+other-additional", "store+default-additional",
                                  "store+storealgo-additional", "dii", "store:gzip-stream"):
                        if entry == "dii" and ck is None:
                            continue
                        if entry == "store:gzip-stream" and (prior != "absent" or sp != sps[0]):
                            continue  # the data argument is a stream whose .name is a file of ANOTHER length
                        if entry.startswith("store+") and (ck is None or prior != "absent" and TIER == "quick"):
                            continue
                        restore(root, _TREES[(c, prior)])
                        s = FileHashStore(common.props(root))
                        before = abstract(snapshot(root), lay, ("bystander", "holder", "new"))
                        n += 1
                        try:
                            if entry.startswith("store"):
                                kw = {}
                                if entry == "store+same-additional":
                                    kw["additional_algorithm"] = sp
                                elif entry == "store+other-additional":
                                    kw["additional_algorithm"] = "sha224" if algo != "sha224" else "sha3_256"
                                elif entry == "store+default-additional":
                                    # an additional algorithm that is one of the five defaults (DataONE spelling)
                                    kw["additional_algorithm"] = "MD5" if algo != "md5" else "SHA-512"
                                elif entry == "store+storealgo-additional":
                                    kw["additional_algorithm"] = "SHA-256"  # the store's own algorithm
                                if ck is not None:
                                    kw.update(checksum=ck, checksum_algorithm=sp)
                                if sz is not None:
                                    kw.update(expected_object_size=sz)
                                if entry == "store:gzip-stream":
                                    import gzip
                                    gpath = os.path.join(common.scratch(), "c06_%s_%s.gz" % (c, algo))
                                    if not os.path.exists(gpath):
                                        with gzip.open(gpath, "wb") as g:
                                            g.write(data)
                                    with gzip.open(gpath, "rb") as g:
                                        s.store_object("new", g, **kw)
                                else:
                                    s.store_object("new", path, **kw)
                            else:
                                md = s.store_object(None, path)
                                s.delete_if_invalid_object(md, ck, sp, sz)
                            out = "ok"
                        except Exception as e:  # noqa: BLE001
                            out = O.classify(e)
                        after = abstract(snapshot(root), lay, ("bystander", "holder", "new"))
                        errs = []
                        if valid:
                            if out != "ok":
                                errs.append("valid data rejected with %s" % out)
                            if cid not in after.objects:
                                errs.append("valid data: object not present afterwards")
                            if entry.startswith("store") and after.pid_refs.get("new") != cid:
                                errs.append("valid data: pid not bound")
                        else:
                            if out != "mismatch":
                                errs.append("invalid data: outcome %s instead of a mismatch error" % out)
                            if "new" in after.pid_refs:
                                errs.append("invalid data: pid bound")
                            if entry.startswith("store") and set(after.objects) != set(before.objects):
                                errs.append("invalid data: rejected store changed the set of objects")
                            if entry == "dii":
                                if prior == "referenced" and cid not in after.objects:
                                    errs.append("invalid data: referenced object removed")
                                if prior != "referenced" and cid in after.objects:
                                    errs.append("invalid data: unreferenced object not removed")
                        if after.residue:
                            errs.append("temporary or marker file left behind")
                        if after.pid_refs.get("bystander") != before.pid_refs.get("bystander") or \
                                set(before.objects) - {cid} != set(after.objects) - {cid}:
                            errs.append("bystander data changed")
                        if prior == "referenced" and (after.pid_refs.get("holder") != cid or
                                                      after.cid_lines(cid) is None or "holder" not in after.cid_lines(cid)):
                            errs.append("holder's references changed")
                        classes.add((entry, prior, valid, out, ckk, szk))
                        for e in errs:
                            res.append(({"kind": "verdict", "entry": entry, "what": e, "checksum": ckk, "size": szk},
                                        {"content": c, "algorithm": sp, "prior": prior, "checksum_kind": ckk,
                                         "size_kind": szk, "entry": entry, "outcome": out}))
    return n, res, classes


def main(tier):
    global TIER, _TREES, _INDIR
    _INDIR = common.scratch()
    TIER = tier
    rep = common.Report("C06", tier, "exploration")
    _TREES = _prior_trees()
    contents = list(CONTENTS) if tier == "thorough" else ["s", "m"]
    tasks = [(c, a) for c in contents for a in ALL_ALGOS]
    n, classes = 0, set()
    for cnt, res, cl in pmap(_cases, tasks):
        n += cnt
        classes |= cl
        for sig, det in res:
            rep.violation(sig, det)
    nontrivial = {x for x in classes if not (x[2] and x[3] == "ok" and x[4] == "lower")}
    rep.coverage.update({
        "evaluations": n, "distinct_nontrivial": len(nontrivial), "exhaustive": True,
        "rule": "complete product contents x 12 algorithms x spellings x checksum{lower,UPPER,wrong,other content's,absent} x "
                "size{absent,correct,wrong} x prior state{absent,unreferenced,referenced} x entry{store_object(pid), "
                "store_object(data)+delete_if_invalid_object}; distinct = (entry, prior, verdict, outcome class, checksum "
                "kind, size kind); non-trivial = anything but a plainly accepted lower-case checksum",
        "distinct_classes": len(classes),
    })
    rep.assumptions += ["oracle: verdict = size equal and checksum equal as case-insensitive hex, digests from hashlib"]
    return rep.finish([{"content": "m", "algorithm": "SHA3-256", "checksum": "UPPER", "size": "wrong+1",
                        "prior": "referenced", "entry": "dii"}])


def replay(rep):
    print(rep["replay"])
    return 1
