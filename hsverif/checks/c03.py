"""C03 - a pid names at most one object; the binding is immutable until deleted (engine S, closure)."""
from .. import common
from ..specs import ModelSpec
from ._s import run_spec
from .seqreplay import replay_history


class C03Spec(ModelSpec):
    prop = "C03"
    pids = ("p", "q", "r")  # three pids: a binding can be shared by two others while the third is re-bound
    api_probe = True

    def __init__(self, tier):
        super().__init__()
        self.key_dirs = tier == "thorough"
        ops = []
        for pid in self.pids:
            ops += [("store", pid, "A", None), ("store", pid, "B", None),
                    ("tag", pid, "A"), ("tag", pid, "B"), ("tag", pid, "N"), ("delete", pid)]
        ops += [("store_nopid", "A"), ("store_nopid", "B"),
                ("dii", "A", "badsize"), ("dii", "B", "badck"), ("dii", "A", "ok"), ("dii", "B", "ok"),
                ("store", "p", "A", "ok:md5+size"), ("store", "q", "B", "badck:sha1"), ("store", "r", "A", "badsize"),
                ("store_meta", "p", None, "v1"), ("delete_meta", "p", None)]
        self.ops = ops

    def extra_checks(self, m0, m1, op, out, t0, t1, a, store):
        # a rejected re-binding leaves every reference file byte-identical
        if op[0] in ("store", "tag") and op[1] in m0.bind:
            r0 = {k: v for k, v in t0.items() if k.startswith("refs/") and v is not None}
            r1 = {k: v for k, v in t1.items() if k.startswith("refs/") and v is not None}
            if out[0] == "ok":
                yield ({"kind": "rebinding", "op": op[0], "what": "a bound pid was bound again without delete_object"},
                       {"call": list(op), "outcome": out})
            elif r0 != r1:
                yield ({"kind": "rejected-call-changed-refs", "op": op[0],
                        "what": "rejected call on a bound pid changed reference files"},
                       {"call": list(op), "diff": common.tree_diff(r0, r1)})


def main(tier):
    rep = common.Report("C03", tier, "model_checking")
    run_spec(rep, C03Spec(tier), "closure", time_cap=120 if tier == "quick" else 3000)
    rep.assumptions += ["alphabet: pids p/q/r, contents A/B, cids cA/cB/never-stored; rejected and accepted forms",
                        "every transition runs the real method on a fresh FileHashStore over the materialised tree"]
    return rep.finish(rep._samples)


def replay(rep):
    return replay_history(C03Spec("thorough"), rep)
