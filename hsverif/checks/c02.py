"""C02 - reported checksums are true and depend only on the call that asked.
Part E: algorithms x spellings x (additional, checksum) combinations x contents.
Part S: sequences of store_object calls with differing algorithm arguments on ONE instance."""
import hashlib
import os

from .. import common, ops as O
from ..common import ALL_ALGOS, DEFAULT_ALGOS, pattern
from ..par import pmap
from ..specs import ModelSpec
from ._s import run_spec
from .seqreplay import replay_history


def spellings(a):
    out = [a, a.upper()]
    if a.startswith("sha3_"):
        n = a[5:]
        out += ["SHA3-" + n, "sha3-" + n, "Sha3_" + n]
    elif a.startswith("sha"):
        n = a[3:]
        out += ["SHA-" + n, "sha_" + n, "Sha-" + n]
    elif a == "md5":
        out += ["MD-5", "Md5"]
    else:
        out += [a.capitalize()]
    return out


CONTENTS = {"e": b"", "s": pattern(10, 4), "m": pattern(2 * 4096 + 5, 5), "big": pattern(1048577, 6)}  # big: past any "large object" threshold


def _combo(args):
    cname, adds = args
    from hashstore.filehashstore import FileHashStore
    root = os.path.join(common.scratch(), "c02-%s-%s" % (cname, adds[0]))
    store = FileHashStore(common.props(root))
    data = CONTENTS[cname]
    path = os.path.join(common.scratch(), "c02_%s.bin" % cname)
    with open(path, "wb") as f:
        f.write(data)
    res, n, distinct = [], 0, set()
    for add in adds:
        for ck in [None] + ALL_ALGOS:
            for sp_i in (0, 2):
                add_s = None if add is None else spellings(add)[sp_i]
                ck_s = None if ck is None else spellings(ck)[sp_i]
                if sp_i and add is None and ck is None:
                    continue
                pid = "c02:%s:%s:%s:%d" % (cname, add, ck, sp_i)
                kw = {}
                if add_s:
                    kw["additional_algorithm"] = add_s
                if ck_s:
                    kw["checksum_algorithm"] = ck_s
                    kw["checksum"] = hashlib.new(ck, data).hexdigest()
                n += 1
                want = set(DEFAULT_ALGOS) | ({add} if add else set()) | ({ck} if ck else set())
                try:
                    md = store.store_object(pid, path, **kw)
                    if set(md.hex_digests) != want:
                        res.append(({"kind": "keys", "part": "combinations",
                                     "what": "hex_digests keys are not the defaults plus the algorithms named in the call"},
                                    {"content": cname, "kwargs": kw, "keys": sorted(md.hex_digests), "want": sorted(want)}))
                    bad = [a for a, v in md.hex_digests.items() if a not in ALL_ALGOS or v != hashlib.new(a, data).hexdigest()]
                    if bad:
                        res.append(({"kind": "value", "part": "combinations", "what": "a reported digest is not the true digest"},
                                    {"content": cname, "kwargs": kw, "algos": bad}))
                    distinct.add(tuple(sorted(md.hex_digests)))
                except Exception as e:  # noqa: BLE001
                    res.append(({"kind": "raise", "part": "combinations", "what": "store_object raised %s" % type(e).__name__},
                                {"content": cname, "kwargs": kw, "err": str(e)[:200]}))
    return n, res, distinct


def _hexdigest(cname):
    from hashstore.filehashstore import FileHashStore
    root = os.path.join(common.scratch(), "c02h-%s" % cname)
    store = FileHashStore(common.props(root))
    data = CONTENTS[cname]
    path = os.path.join(common.scratch(), "c02h_%s.bin" % cname)
    with open(path, "wb") as f:
        f.write(data)
    store.store_object("h", path)
    res, n = [], 0
    for a in ALL_ALGOS:
        for sp in spellings(a):
            n += 1
            try:
                got = store.get_hex_digest("h", sp)
                if got != hashlib.new(a, data).hexdigest():
                    res.append(({"kind": "value", "part": "get_hex_digest", "what": "get_hex_digest is not the true digest"},
                                {"content": cname, "spelling": sp}))
            except Exception as e:  # noqa: BLE001
                res.append(({"kind": "raise", "part": "get_hex_digest",
                             "what": "get_hex_digest raised %s for an accepted spelling" % type(e).__name__},
                            {"content": cname, "spelling": sp}))
    # the object file altered on disk (bit rot, truncated restore): every digest must describe the bytes that
    # retrieve_object now returns, for every algorithm including the store's own
    from ..absx import Layout
    cid = hashlib.sha256(data).hexdigest()
    objpath = os.path.join(root, Layout().obj_path(cid))
    with open(objpath, "ab") as f:
        f.write(b"altered")
    s = store.retrieve_object("h")
    now = s.read()
    s.close()
    for a in ALL_ALGOS:
        for sp in spellings(a)[:3]:
            n += 1
            try:
                got = store.get_hex_digest("h", sp)
                if got != hashlib.new(a, now).hexdigest():
                    res.append(({"kind": "value", "part": "get_hex_digest",
                                 "what": "get_hex_digest does not describe the bytes the store holds for the pid"},
                                {"content": cname, "spelling": sp, "state": "object file altered on disk"}))
            except Exception as e:  # noqa: BLE001
                res.append(({"kind": "raise", "part": "get_hex_digest", "what": "get_hex_digest raised %s" % type(e).__name__},
                            {"content": cname, "spelling": sp, "state": "object file altered on disk"}))
    return n, res


def _read_faults(cname):
    """get_hex_digest under a failing read: every raw read of the object, in turn, fails once with EIO / ESTALE / EAGAIN
    (the last two are what a 'retry on a transient error' loop would pick up).  The call may raise; a value it returns
    must be the true digest."""
    import errno
    from .. import engine_f, env, tscen
    from ..common import Inputs, snapshot
    from ..specs import make_store
    env.install()
    data = CONTENTS[cname]
    inputs = Inputs({cname: data}, "c02rf-" + cname)
    ctx = O.Ctx(inputs)
    root = os.path.join(common.scratch(), "c02-rf-" + cname)
    common.restore(root, {})
    os.rmdir(root)
    store = make_store(root, tscen.P, {"USE_MULTIPROCESSING": "False"})
    store.store_object("h", inputs.path(cname))
    init = snapshot(root)
    res, n = [], 0
    for algo in ("sha256", "md5", "sha3_256"):
        op = ("hexdigest", "h", algo)
        base = engine_f.run_call(root, init, tscen.P, op, ctx)
        true = hashlib.new(algo, data).hexdigest()
        if base.outcome != ("ok", true):
            res.append(({"kind": "value", "part": "read-faults", "what": "get_hex_digest without a fault is not the true digest"},
                        {"content": cname, "algorithm": algo}))
            continue
        reads = [i for i, sop in enumerate(base.sites) if sop[0] == "read"]
        # every read site for the small content; first, second, middle, last-but-one and last for the large one
        pick = reads if len(reads) <= 12 else sorted({reads[0], reads[1], reads[len(reads) // 2], reads[-2], reads[-1]})
        for i in pick:
            for en in (errno.EIO, errno.ESTALE, errno.EAGAIN):
                r = engine_f.run_call(root, init, tscen.P, op, ctx, fault=(i, en, False, "any"))
                if not r.injected:
                    continue
                n += 1
                if r.outcome[0] == "ok" and r.outcome[1] != true:
                    res.append(({"kind": "value", "part": "read-faults",
                                 "what": "get_hex_digest returned a value that is not the true digest after a read failed once"},
                                {"content": cname, "algorithm": algo, "errno": errno.errorcode[en], "read_site": i,
                                 "reads": len(reads)}))
    return n, res


class C02Spec(ModelSpec):
    prop = "C02"
    pids = ("p", "q", "r")

    def __init__(self, tier):
        super().__init__()
        self.key_dirs = False
        ops = []
        for pid in self.pids:
            for val in (None, "add:sha224", "add:blake2s", "ok:sha3_256", "add:SHA3-512+ok:sha-224", "add:sha224+ok:SHA3-512"):
                ops.append(("store", pid, "A" if pid != "r" else "B", val))
            ops.append(("delete", pid))
        ops.append(("store_nopid", "B"))
        # rejected re-stores with other content, then digests asked through the same instance
        ops += [("store", "p", "B", "add:sha224"), ("store", "r", "A", None), ("store", "q", "B", "badck:sha3_256"),
                ("tag", "q", "B")]
        for pid in self.pids:
            for algo in ("sha256", "MD5", "SHA3-256", "sha224"):
                ops.append(("hexdigest", pid, algo))
        self.ops = ops


# two calls on one store instance that share no pid, cid or file: whatever the package keeps in memory between two
# lines is the only thing they can share (explored by engine L: one pre-emption at every source line)
LINE_LEVEL = [
    {"name": "get_hex_digest(p1,sha256)||get_hex_digest(p2,md5) from p1A,p2B", "init": "p1A,p2B", "pids": ("p1", "p2"),
     "threads": {"T1": [("hexdigest", "p1", "sha256")], "T2": [("hexdigest", "p2", "md5")]}},
    {"name": "get_hex_digest(p1,sha3_256)||get_hex_digest(p2,sha3_256) from p1A,p2B", "init": "p1A,p2B", "pids": ("p1", "p2"),
     "threads": {"T1": [("hexdigest", "p1", "sha3_256")], "T2": [("hexdigest", "p2", "sha3_256")]}},
    {"name": "get_hex_digest(p1,sha1)||store(p3,L,+blake2b) from p1A,p2B", "init": "p1A,p2B", "pids": ("p1", "p2", "p3"),
     "threads": {"T1": [("hexdigest", "p1", "sha1")], "T2": [("store", "p3", "L", "add:blake2b")]}},
    {"name": "store(p1,A,+sha224)||store(p2,B,+blake2s) from empty", "init": "empty", "pids": ("p1", "p2"),
     "threads": {"T1": [("store", "p1", "A", "add:sha224")], "T2": [("store", "p2", "B", "add:blake2s")]}},
]


def main(tier):
    rep = common.Report("C02", tier, "model_checking")
    tasks = [(c, [a]) for c in CONTENTS for a in [None] + ALL_ALGOS]
    n, distinct = 0, set()
    for cnt, res, d in pmap(_combo, tasks):
        n += cnt
        distinct |= d
        for sig, det in res:
            rep.violation(sig, det)
    nh = 0
    for cnt, res in pmap(_hexdigest, list(CONTENTS)):
        nh += cnt
        for sig, det in res:
            rep.violation(sig, det)
    nrf = 0
    for cnt, res in pmap(_read_faults, ["m", "big"]):
        nrf += cnt
        for sig, det in res:
            rep.violation(sig, det)
    rep.coverage["read_fault_runs"] = nrf
    from .c01 import _short_writes
    nshort = 0
    for cnt, res in pmap(_short_writes, [(("store", "p", "L", "add:sha224"), "q=B"), (("store", "p", "A", "ok:sha3_256"), "q=A")]):
        nshort += cnt
        for sig, det in res:
            if "digest" in sig["what"]:
                rep.violation(sig, det)
    rep.coverage["short_write_runs"] = nshort
    rep.coverage.update({"combination_cases": n, "distinct_key_sets": len(distinct), "get_hex_digest_cases": nh,
                         "spellings": {a: spellings(a) for a in ALL_ALGOS}})
    run_spec(rep, C02Spec(tier), "one-instance-histories", max_depth=8 if tier == "quick" else 14,
             time_cap=120 if tier == "quick" else 3000)
    from ._t import line_level_part
    line_level_part(rep, LINE_LEVEL, two=("get_hex_digest(p1,sha256)||get_hex_digest(p2,md5) from p1A,p2B",))
    rep.assumptions += ["line level (engine L): two calls on ONE instance with one pre-emption at every source line of the "
                        "package; each call's value must be what it is in a sequential run",
                        "engine S carries the instance's plain-data attributes from call to call, so a call that "
                        "changes instance state is seen by every later call of the history",
                        "spellings: hashlib name in lower/upper/mixed case, '-'/'_' variants, DataONE forms"]
    return rep.finish(rep._samples)


def replay(rep):
    if "history" in rep["replay"]:
        return replay_history(C02Spec("thorough"), rep)
    print(rep["replay"])
    return 1
