"""C19 - the two documented ways of storing an object converge (engine S states x argument product)."""
import os

from .. import common, ops as O
from ..common import restore, snapshot
from ..specs import ModelSpec, make_store
from ._s import run_spec
from .seqreplay import replay_history

VALS = [None, "size", "badsize", "ok:sha256", "ok:sha256+size", "ok:MD5", "ok:SHA256+size", "ok:Sha1", "ok:SHA224", "ok:sha3_256", "OK:md5", "OK:sha224", "ok:SHA-384+size",
        "badck:sha256", "badck:sha224", "ok:sha256+badsize", "badck:md5+badsize"]


class C19Spec(ModelSpec):
    prop = "C19"
    pids = ("p", "q")

    def __init__(self, tier):
        super().__init__()
        self.key_dirs = False
        ops = []
        for pid in self.pids:
            ops += [("store", pid, "A", None), ("store", pid, "B", None), ("delete", pid)]
        ops += [("tag", "q", "A"), ("store_nopid", "A"), ("store_nopid", "B"), ("dii", "A", "badsize")]
        for c in ("A", "B", "C"):
            for val in VALS:
                ops.append(("diff", "p", c, val))
        if tier == "thorough":
            for c in ("A", "C"):
                for val in VALS:
                    ops.append(("diff", "q", c, val))
        self.ops = ops

    def transition(self, root, tree, aux, op):
        if op[0] != "diff":
            return super().transition(root, tree, aux, op)
        _, pid, c, val = op
        m0, _ = aux
        ctx = self.ctx
        viol = []

        def bad(what, **det):
            det.update({"call": O.name(op), "state": {"bind": {p: x[:6] for p, x in m0.bind.items()},
                                                       "objs": sorted(x[:6] for x in m0.objs)}})
            viol.append(({"kind": "differential", "op": "diff", "what": what, "validation": val}, det))

        # procedure 1: one call
        restore(root, tree)
        s1 = make_store(root, self.p)
        kw = ctx.validation(c, val)
        o1 = O.run(s1, ("store", pid, c, val), ctx)
        t1 = snapshot(root)
        a1 = self.abstract(t1)
        # procedure 2: in steps
        restore(root, tree)
        s2 = make_store(root, self.p)
        o2 = None
        try:
            md = s2.store_object(None, ctx.inputs.path(c))
            if "checksum" in kw:
                s2.delete_if_invalid_object(md, kw["checksum"], kw["checksum_algorithm"], kw.get("expected_object_size"))
            elif "expected_object_size" in kw:
                # only a size to validate: the verification step needs a checksum, the caller passes the one just
                # reported for the store algorithm
                s2.delete_if_invalid_object(md, md.hex_digests[self.layout.algo], self.layout.algo,
                                            kw["expected_object_size"])
            s2.tag_object(pid, md.cid)
            o2 = ("ok", (md.cid, md.obj_size, tuple(sorted(md.hex_digests.items()))))
        except Exception as e:  # noqa: BLE001
            o2 = (O.classify(e), str(e)[:200])
        t2 = snapshot(root)
        a2 = self.abstract(t2)
        valid = O.valid_verdict(val)
        bound = pid in m0.bind
        defaults = lambda v: (v[0], v[1], tuple(x for x in v[2] if x[0] in common.DEFAULT_ALGOS))
        if valid:
            if o1[0] != o2[0]:
                bad("valid data: one-call outcome %s, stepwise outcome %s" % (o1[0], o2[0]), o1=o1, o2=o2)
            elif o1[0] == "ok" and defaults(o1[1]) != defaults(o2[1]):
                bad("valid data: the two ways report different cid/size/default digests", o1=o1, o2=o2)
            elif o1[0] not in ("ok", "exists"):
                bad("valid data: both ways failed with %s" % o1[0], o1=o1, o2=o2)
            elif o1[0] == "ok" and bound:
                bad("valid data: a bound pid was bound again", o1=o1)
            if o1[0] == o2[0] and a1.key() != a2.key():
                bad("valid data: post-states differ", abs1=a1.describe(), abs2=a2.describe())
        else:
            for tag, o, a in (("one-call", o1, a1), ("stepwise", o2, a2)):
                if o[0] != "mismatch" and not (bound and o[0] == "exists"):
                    bad("invalid data: %s way ended with %s instead of a mismatch error" % (tag, o[0]), o=o)
                if not bound and pid in a.pid_refs:
                    bad("invalid data: %s way left the pid bound" % tag, abs=a.describe())
                for b, cid in m0.bind.items():
                    if a.pid_refs.get(b) != cid or (cid in m0.objs and cid not in a.objects) \
                            or b not in (a.cid_lines(cid) or []):
                        bad("invalid data: %s way disturbed a referenced object or its references" % tag, abs=a.describe())
        return tree, aux, viol, "%s/%s" % (o1[0], o2[0])


def main(tier):
    rep = common.Report("C19", tier, "model_checking")
    run_spec(rep, C19Spec(tier), "states-x-arguments", time_cap=120 if tier == "quick" else 3000)
    rep.assumptions += ["starting states: closure of store/delete/tag/no-pid store/dii over pids p/q and contents A/B",
                        "differential: store_object(pid,data,checksum..) vs store_object(data); delete_if_invalid_object; "
                        "tag_object on two copies of each state, contents A/B/new C x 11 validation kinds"]
    return rep.finish(rep._samples)


def replay(rep):
    return replay_history(C19Spec("thorough"), rep)
