"""C01 - stored bytes come back unchanged, addressed by their own hash.
Part E: sizes x kinds of data argument x store algorithms (complete product).
Part S: witness pids under all histories of calls on other pids (engine S, closure)."""
import hashlib
import io
import os
from pathlib import Path

from .. import common, ops as O
from ..common import pattern, STORE_ALGOS
from ..par import pmap
from ..specs import ModelSpec
from ._s import run_spec
from .seqreplay import replay_history

KINDS = ["str", "Path", "file@0", "file@1", "file@mid", "file@end", "bytesio@0", "bytesio@mid", "bytesio@end",
         "buffered-bytesio@0", "buffered-bytesio@mid", "fdfile@mid",
         # streams whose name points at a file of another length than what the stream yields
         "pendingwrites@end", "gzip@0",
         # a caller's stream whose read fails part-way: the store must not report success for a prefix
         "failing-eio@0", "failing-eintr@0",
         # environment answer SHORT READ: a buffered stream over an interactive raw source (pipe, socket, tty) may return fewer
         # bytes than asked for - only b"" means end of data
         "short1@0", "short1000@mid", "shortvar@1"]


class _ShortReads(io.BytesIO):
    """In-memory stream whose read(n) returns at most `cap` bytes (`cap` = 0: 1, 2, 3, ... growing), like a BufferedReader
    over a pipe; read() / read(-1) returns everything."""

    def __init__(self, data, cap):
        super().__init__(data)
        self._cap = cap
        self._k = 0

    def read(self, n=-1):
        if n is None or n < 0:
            return super().read()
        self._k += 1
        cap = self._cap or (1 + self._k % 97)
        return super().read(min(n, cap))

    read1 = read


class _Failing(io.BytesIO):
    """In-memory stream whose second read() raises."""

    def __init__(self, data, exc):
        super().__init__(data)
        self._n = 0
        self._exc = exc

    def read(self, *a):
        self._n += 1
        if self._n == 2:
            raise self._exc
        return super().read(*a)


def sizes():
    B = os.stat(common.scratch()).st_blksize
    out = []
    for b in sorted({B, 8192}):
        out += [b - 1, b, b + 1, 2 * b - 1, 2 * b, 2 * b + 1, 3 * b + 7]
    # sizes around the thresholds a "use another path for large objects" optimisation would pick (64 KiB, 1 MiB), and the
    # shutil.copyfileobj / sendfile chunk sizes
    out += [65535, 65536, 65537, 1048575, 1048576, 1048577, 2 * 1048576 + 3]
    return sorted(set([0, 1] + out))


def _case(args):
    algo, size_list = args
    from hashstore.filehashstore import FileHashStore
    root = os.path.join(common.scratch(), "c01-" + algo)
    store = FileHashStore(common.props(root, algo=algo))
    hl = STORE_ALGOS[algo]
    res = []
    n = 0
    stored = []
    for size in size_list:
        data = pattern(size, size % 5)
        path = os.path.join(common.scratch(), "c01_%s_%d.bin" % (hl, size))
        with open(path, "wb") as f:
            f.write(data)
        for kind in KINDS:
            pid = "pid:%s:%d:%s" % (algo, size, kind)
            base, _, off = kind.partition("@")
            pos = {"": 0, "0": 0, "1": min(1, size), "mid": size // 2, "end": size}[off]
            stream = None
            if base == "str":
                arg = path
            elif base == "Path":
                arg = Path(path)
            elif base == "file":
                arg = stream = open(path, "rb")
            elif base == "fdfile":
                arg = stream = open(os.open(path, os.O_RDONLY), "rb")
            elif base == "pendingwrites":
                wpath = path + ".w"
                arg = stream = open(wpath, "w+b")
                stream.write(data)  # still in the user-space buffer: the file on disk is shorter
            elif base == "gzip":
                import gzip
                gpath = path + ".gz"
                with gzip.open(gpath, "wb") as g:
                    g.write(data)
                arg = stream = gzip.open(gpath, "rb")  # .name is the (shorter or longer) compressed file
            elif base == "failing-eio":
                arg = stream = _Failing(data, OSError(5, "Input/output error (injected into the caller's stream)"))
            elif base == "failing-eintr":
                arg = stream = _Failing(data, InterruptedError(4, "Interrupted system call (injected)"))
            elif base.startswith("short"):
                if size > 70000:
                    continue  # (one byte per read: keep the large sizes out)
                arg = stream = _ShortReads(data, {"short1": 1, "short1000": 1000, "shortvar": 0}[base])
            elif base == "bytesio":
                arg = stream = io.BytesIO(data)
            else:
                arg = stream = io.BufferedReader(io.BytesIO(data))
            if stream is not None and base not in ("pendingwrites",):
                stream.seek(pos)
            if base == "pendingwrites":
                pos = stream.tell()
            n += 1
            failing = base.startswith("failing") and size > 0
            try:
                try:
                    md = store.store_object(pid, arg)
                except Exception:  # noqa: BLE001
                    if failing:
                        continue  # a failing source may only make the call fail
                    raise
                errs = []
                if md.cid != hashlib.new(hl, data).hexdigest():
                    errs.append("cid is not the digest of the content")
                if md.obj_size != size:
                    errs.append("reported size %d != %d" % (md.obj_size, size))
                if md.hex_digests != common.digests(data, common.DEFAULT_ALGOS):
                    errs.append("hex_digests are not the true default digests")
                if stream is not None:
                    if stream.closed:
                        errs.append("caller's stream was closed")
                    elif stream.tell() != pos:
                        errs.append("caller's stream left at a different offset")
                s = store.retrieve_object(pid)
                if s.read() != data:
                    errs.append("retrieve_object returned different bytes")
                s.close()
                stored.append((pid, size))
            except Exception as e:  # noqa: BLE001
                errs = ["store/retrieve raised %s" % type(e).__name__]
            finally:
                if stream is not None and not stream.closed:
                    stream.close()
            for e in errs:
                res.append(({"kind": "roundtrip", "part": "inputs", "what": e, "arg": base},
                            {"algo": algo, "size": size, "kind": kind}))
    # everything stored earlier is still exact after all later calls on other pids
    for pid, size in stored:
        s = store.retrieve_object(pid)
        ok = s.read() == pattern(size, size % 5)
        s.close()
        if not ok:
            res.append(({"kind": "roundtrip", "part": "inputs", "what": "bytes changed after later calls on other pids"},
                        {"algo": algo, "pid": pid}))
    return n, res


def _shapes(algo):
    """Contents with long runs of one byte value (zero blocks at the head, the tail, everywhere, alternating) at sizes that
    are exact multiples of the read-block sizes: what a 'sparse file' or run-length shortcut in the copy loop would mishandle.
    (The position-dependent pattern of the other cases never yields a block of equal bytes.)"""
    from hashstore.filehashstore import FileHashStore
    root = os.path.join(common.scratch(), "c01-shapes-" + algo)
    store = FileHashStore(common.props(root, algo=algo))
    hl = STORE_ALGOS[algo]
    B = os.stat(common.scratch()).st_blksize
    res, n = [], 0
    for blk in sorted({B, 8192, 65536}):
        nz = pattern(blk, 3)
        z = bytes(blk)
        ff = b"\xff" * blk
        shapes = {"all zero": z * 3, "zero tail": nz + z + z, "zero head": z + z + nz, "alternating": z + nz + z + nz + z,
                  "one zero block": z, "0xff tail": nz + ff + ff, "zero tail + 1": nz + z + b"\0", "zero tail - 1": nz + z[:-1]}
        for sname, data in shapes.items():
            for kind in ("str", "buffered"):
                n += 1
                pid = "shape:%d:%s:%s" % (blk, sname.replace(" ", "_"), kind)
                path = os.path.join(common.scratch(), "c01_shape_%s_%d_%s.bin" % (hl, blk, sname.replace(" ", "_")))
                with open(path, "wb") as f:
                    f.write(data)
                arg = path if kind == "str" else io.BufferedReader(io.BytesIO(data))
                errs = []
                try:
                    md = store.store_object(pid, arg)
                    if md.cid != hashlib.new(hl, data).hexdigest():
                        errs.append("cid is not the digest of the content")
                    if md.obj_size != len(data):
                        errs.append("reported size %d != %d" % (md.obj_size, len(data)))
                    r = store.retrieve_object(pid)
                    if r.read() != data:
                        errs.append("retrieve_object returned different bytes")
                    r.close()
                except Exception as e:  # noqa: BLE001
                    errs.append("store/retrieve raised %s" % type(e).__name__)
                for e in errs:
                    res.append(({"kind": "roundtrip", "part": "shapes", "what": e, "shape": sname},
                                {"algo": algo, "block": blk, "shape": sname, "arg": kind}))
    return n, res


class C01Spec(ModelSpec):
    """Witness pids w1/w2/w3 hold contents A/B/C; the alphabet acts on other pids only."""
    prop = "C01"
    pids = ("w1", "w2", "w3", "1", "xw3")  # '1' is a suffix of w1, w3 is a suffix of 'xw3'
    api_probe = True
    init_ops = (("store", "w1", "A", None), ("store", "w2", "B", None), ("store", "w3", "C", None))

    def __init__(self, tier):
        super().__init__()
        self.key_dirs = False
        x, y = "1", "xw3"
        self.ops = [
            ("store", x, "A", None), ("store", x, "B", None), ("store", y, "C", None),
            ("tag", x, "A"), ("tag", y, "C"), ("tag", y, "B"), ("delete", x), ("delete", y),
            ("dii", "A", "badsize"), ("dii", "C", "badck"), ("dii", "B", "badboth"),
            ("store", x, "A", "badck:sha1"), ("store", y, "B", "badsize"), ("store_nopid", "C"),
            ("store_meta", x, None, "v1"), ("delete_meta", x, None),
            ("store", "w1", "B", None), ("tag", "w2", "A"),
        ]

    def extra_checks(self, m0, m1, op, out, t0, t1, a, store):
        for w in ("w1", "w2", "w3"):
            if w not in m1.bind:
                yield ({"kind": "witness", "op": op[0], "what": "witness pid lost its binding"}, {"call": list(op)})


def _short_writes(case):
    """Environment answer 'short write': every raw write(2) of the call, in turn, transfers only half of its
    buffer.  A store that reports success must still retrieve the exact bytes with the true size."""
    from .. import env, engine_f, fscen
    op, state = case
    c = fscen.ctx()
    root = os.path.join(common.scratch(), "c01-short")
    init = fscen.init_tree(state)
    env.install()
    base = engine_f.run_call(root, init, fscen.P, op, c)
    res = []
    n = 0
    for i, sop in enumerate(base.sites):
        if sop[0] != "write" or sop[1] != "write":
            continue
        r = engine_f.run_call(root, init, fscen.P, op, c, fault=(i, "SHORT", False))
        if not r.injected:
            continue
        n += 1
        if r.outcome[0] != "ok":
            continue  # raising is acceptable
        env.set_root(root)
        errs = []
        if op[0] == "store":
            data = c.inputs.data[op[2]]
            if r.outcome[1][1] != len(data):
                errs.append("store_object reported size %d for %d bytes after a short write" % (r.outcome[1][1], len(data)))
            got = O.run(r.store, ("retrieve", op[1]), c)
            if got[0] != "ok" or got[1] != data:
                errs.append("store_object reported success after a short write but retrieve_object does not return the bytes")
            if dict(r.outcome[1][2]) != common.digests(data, [a for a, _ in r.outcome[1][2]]):
                errs.append("store_object reported success after a short write with digests that are not the content's")
            for a, v in r.outcome[1][2]:
                hd = O.run(r.store, ("hexdigest", op[1], a), c)
                if hd[0] != "ok" or hd[1] != v:
                    errs.append("after a short write get_hex_digest disagrees with the digests store_object reported")
                    break
        else:
            data = c.docs.data[op[3]]
            got = O.run(r.store, ("retrieve_meta", op[1], op[2]), c)
            if got[0] != "ok" or got[1] != data:
                errs.append("store_metadata reported success after a short write but the document is not the bytes supplied")
        for e in errs:
            res.append(({"kind": "short-write", "part": "environment", "what": e, "call": op[0]},
                        {"call": list(op), "state": state, "site": i, "site_op": list(sop)}))
    return n, res


# 'whatever calls are made on other pids in between': the other call may also OVERLAP the retrieval on the same instance
LINE_LEVEL = [
    {"name": "retrieve(p1)||store(p3,L) from p1A,p2B", "init": "p1A,p2B", "pids": ("p1", "p2", "p3"),
     "threads": {"T1": [("retrieve", "p1")], "T2": [("store", "p3", "L", None)]}},
    {"name": "retrieve(p1)||retrieve(p2) from p1A,p2B", "init": "p1A,p2B", "pids": ("p1", "p2"),
     "threads": {"T1": [("retrieve", "p1")], "T2": [("retrieve", "p2")]}},
    {"name": "retrieve(p1)||delete(p2) from p1A,p2B", "init": "p1A,p2B", "pids": ("p1", "p2"),
     "threads": {"T1": [("retrieve", "p1")], "T2": [("delete", "p2")]}},
    {"name": "store(p1,L)||store(p2,K) from empty", "init": "empty", "pids": ("p1", "p2"),
     "threads": {"T1": [("store", "p1", "L", None)], "T2": [("store", "p2", "K", None)]}},
]


def main(tier):
    rep = common.Report("C01", tier, "model_checking")
    nshort = 0
    for cnt, res in pmap(_short_writes, [(("store", "p", "L", None), "q=B"), (("store", "p", "A", None), "q=A"),
                                         (("store", "p", "O", None), "empty"), (("store_meta", "p", None, "v2"), "q=B")]):
        nshort += cnt
        for sig, det in res:
            rep.violation(sig, det)
    rep.coverage["short_write_runs"] = nshort
    algos = list(STORE_ALGOS) if tier == "thorough" else ["SHA-256", "MD5"]
    sz = sizes()
    tasks = [(a, sz[i::4]) for a in algos for i in range(4)]
    n = 0
    for cnt, res in pmap(_case, tasks):
        n += cnt
        for sig, det in res:
            rep.violation(sig, det)
    nshape = 0
    for cnt, res in pmap(_shapes, algos):
        nshape += cnt
        for sig, det in res:
            rep.violation(sig, det)
    rep.coverage["content_shape_cases"] = nshape
    rep.coverage.update({"input_cases": n, "sizes": sz, "kinds": KINDS, "algorithms": algos})
    run_spec(rep, C01Spec(tier), "witness-histories", time_cap=120 if tier == "quick" else 3000)
    from ._t import line_level_part
    line_level_part(rep, LINE_LEVEL, two=("retrieve(p1)||retrieve(p2) from p1A,p2B",))
    rep.assumptions += ["line level (engine L): a retrieve_object overlapping a call on another pid, one pre-emption at "
                        "every source line of the package; the reader must get exactly the stored bytes",
                        "byte values follow a position-dependent pattern; digest correctness for arbitrary bytes is hashlib's",
                        "read-buffer sizes: st_blksize of the source file system and the 8192 fallback"]
    return rep.finish(rep._samples + [{"algo": algos[0], "size": sz[3], "kind": KINDS[4]}])


def replay(rep):
    if "history" in rep["replay"]:
        return replay_history(C01Spec("thorough"), rep)
    r = rep["replay"]
    n, res = _case((r["algo"], [r["size"]]))
    for sig, det in res:
        print("VIOLATION:", sig["what"], det)
    return 1 if res else 0
