"""C20 - the command-line client is a faithful front end to the API (verb x option-subset product)."""
import contextlib
import hashlib
import io
import itertools
import os
import sys

from .. import common
from ..absx import Layout, abstract
from ..common import STORE_ALGOS, restore, snapshot
from ..par import pmap

NS = "https://ns.dataone.org/service/types/v2.0#SystemMetadata"
OBJ = "caf\u00e9 \u6f22 first line\r\nold-mac\rline\r".encode("utf-8") + \
    ("line %04d of an object with CRLF endings\r\n" * 60 % tuple(range(60))).encode("ascii")
OBJ2 = b"another ascii object\n"
DOC = "<metadata>one\r\n\u00e9</metadata>\r".encode("utf-8")
DOC2 = b"<metadata>two, a longer one</metadata>\n"
ARGERR = {"ValueError", "TypeError", "UnsupportedAlgorithm"}
PIDS = ("held", "new", "unknown", "rotten", "@at", "@new", "hdrbin", "cjk")
HDRBIN = b"plain ascii header line\n" * 60 + bytes(range(128, 256)) * 4  # 1380 text bytes, then bytes that are not UTF-8
CJK = ("\u6f22\u5b57\u3068\u304b\u306a " * 300).encode("utf-8")  # 3-byte characters: 1000 bytes are not 1000 characters
FORMATS = (NS, "fmt2", "fmt2 ", " fmt2", "fmt2\n", "\tfmt2")


def cls(e):
    n = type(e).__name__
    if n in ARGERR:
        return "argerr"
    if n in ("NonMatchingChecksum", "NonMatchingObjSize"):
        return "mismatch"
    if n in ("HashStoreRefsAlreadyExists", "PidRefsAlreadyExistsError"):
        return "exists"
    return n


def run_client(argv):
    from hashstore import hashstoreclient
    old = sys.argv
    sys.argv = ["hashstore"] + argv
    out = io.StringIO()
    try:
        with contextlib.redirect_stdout(out), contextlib.redirect_stderr(io.StringIO()):
            hashstoreclient.main()
        return "ok", out.getvalue()
    except SystemExit as e:
        return "SystemExit", out.getvalue()
    except Exception as e:  # noqa: BLE001
        return cls(e), out.getvalue()
    finally:
        sys.argv = old


def run_api(root, fn):
    from hashstore.filehashstore import FileHashStore
    try:
        s = FileHashStore(common.props(root, ns=NS))
        return "ok", fn(s)
    except Exception as e:  # noqa: BLE001
        return cls(e), None


def abs_of(root):
    t = {r: b for r, b in snapshot(root).items() if r != "python_client.log"}
    return abstract(t, Layout(), PIDS, FORMATS)


def base_tree():
    from hashstore.filehashstore import FileHashStore
    root = os.path.join(common.scratch(), "c20-base")
    restore(root, {})
    os.rmdir(root)
    s = FileHashStore(common.props(root, ns=NS))
    s.store_object("held", INP["obj"])
    s.store_metadata("held", INP["doc"])
    s.store_metadata("held", INP["doc"], "fmt2")
    # a pid whose object file was altered on disk after it was stored (bit rot, truncated restore)
    s.store_object("hdrbin", INP["hdrbin"])
    s.store_object("cjk", INP["cjk"])
    s.store_metadata("cjk", INP["cjk"])
    s.store_object("@at", INP["doc2"])  # a pid that starts with the character argparse can treat as 'read from file'
    md = s.store_object("rotten", INP["doc2"])
    t = snapshot(root)
    from ..absx import Layout as _L
    t[_L().obj_path(md.cid)] = DOC2 + b"altered"
    return t


INP = {}


def inputs():
    for k, v in (("obj", OBJ), ("obj2", OBJ2), ("doc", DOC), ("doc2", DOC2), ("hdrbin", HDRBIN), ("cjk", CJK)):
        INP[k] = os.path.join(common.scratch(), "c20in_%s" % k)
        with open(INP[k], "wb") as f:
            f.write(v)


def cases():
    md5 = hashlib.md5(OBJ2).hexdigest()
    s224 = hashlib.sha224(OBJ2).hexdigest()
    out = []
    algo_vals = [None, "sha224", "SHA-256", "SHA3-256", "bogus"]
    ck_vals = [None, ("md5", md5), ("SHA-224", s224.upper()), ("md5", "0" * 32), ("sha1", None), (None, md5), ("bogus", md5)]
    size_vals = [None, str(len(OBJ2)), str(len(OBJ2) + 1), "abc", "0", "1.5"]
    for pid in ("new", "held"):
        for algo, ck, size in itertools.product(algo_vals, ck_vals, size_vals):
            if pid == "held" and (algo not in (None, "sha224") or ck not in (None, ("md5", md5)) or size not in (None, "abc")):
                continue
            out.append(("storeobject", {"pid": pid, "path": "obj2", "algo": algo,
                                        "checksum": ck[1] if ck else None, "checksum_algo": ck[0] if ck else None,
                                        "obj_size": size}))
    for pid in ("held", "unknown", "rotten"):
        for algo in ("sha256", "SHA-256", "SHA-512", "blake2b", "SHA3-256", "md5", "bogus", None):
            out.append(("getchecksum", {"pid": pid, "algo": algo}))
    out.append(("retrieveobject", {"pid": "rotten"}))
    out.append(("retrieveobject", {"pid": "hdrbin"}))  # 1000 bytes of text are shown although binary data follows
    out.append(("retrieveobject", {"pid": "cjk"}))
    out.append(("retrievemetadata", {"pid": "cjk", "formatid": None}))
    for pid in ("held", "unknown"):
        out.append(("retrieveobject", {"pid": pid}))
        out.append(("deleteobject", {"pid": pid}))
        for fmt in (None, NS, "fmt2", "nofmt"):
            out.append(("retrievemetadata", {"pid": pid, "formatid": fmt}))
            out.append(("deletemetadata", {"pid": pid, "formatid": fmt}))
            out.append(("storemetadata", {"pid": pid, "path": "doc2", "formatid": fmt}))
    # option values as separate tokens (the form --help shows), including values that start with '@'
    for pid in ("@at", "@new", "held"):
        out.append(("retrieveobject", {"pid": pid, "_sep": True}))
        out.append(("getchecksum", {"pid": pid, "algo": "md5", "_sep": True}))
        out.append(("storemetadata", {"pid": pid, "path": "doc2", "formatid": "@fmt", "_sep": True}))
        out.append(("deleteobject", {"pid": pid, "_sep": True}))
    # option values reach the API exactly as given: surrounding blanks / a trailing newline are part of the value (the API
    # rejects them in identifiers, checksums and algorithm names and treats a padded format id as another format)
    md5ok = ("md5", md5)
    pads = (lambda v: v + " ", lambda v: " " + v, lambda v: v + "\n", lambda v: "\t" + v)
    padded = [("storeobject", {"pid": "new", "path": "obj2", "algo": "sha224", "checksum": md5ok[1], "checksum_algo": "md5"}),
              ("getchecksum", {"pid": "held", "algo": "md5"}), ("retrieveobject", {"pid": "held"}),
              ("deleteobject", {"pid": "held"}), ("storemetadata", {"pid": "held", "path": "doc2", "formatid": "fmt2"}),
              ("retrievemetadata", {"pid": "held", "formatid": "fmt2"}), ("deletemetadata", {"pid": "held", "formatid": "fmt2"})]
    for verb, o in padded:
        for k in o:
            if k == "path":
                continue
            for sep in (False, True):
                for f in pads:
                    o2 = dict(o)
                    o2[k] = f(o[k])
                    if sep:
                        o2["_sep"] = True
                    out.append((verb, o2))
    out.append(("storeobject", {"pid": "@new", "path": "obj2", "_sep": True}))
    out.append(("storeobject", {"pid": None, "path": "obj2"}))
    out.append(("storeobject", {"pid": "new", "path": None}))
    out.append(("getchecksum", {"pid": None, "algo": "md5"}))
    return out


def _case(args):
    verb, o = args
    errs = []
    base = BASE
    rc = os.path.join(common.scratch(), "c20-client")
    ra = os.path.join(common.scratch(), "c20-api")
    restore(rc, base)
    restore(ra, base)
    argv = [rc, "-" + verb]
    sep = o.get("_sep")
    o = {k: v for k, v in o.items() if k != "_sep"}
    for k, v in o.items():
        if v is not None:
            if sep:
                argv += ["-" + k, INP[v] if k == "path" else v]
            else:
                argv.append("-%s=%s" % (k, INP[v] if k == "path" else v))
    co, cout = run_client(argv)
    pid = o.get("pid")
    fmt = o.get("formatid")

    def size_of(x):
        if x is None:
            return None
        try:
            return int(x)
        except ValueError:
            return x  # not integer-like: the API must reject it just as the client must

    if verb == "storeobject":
        if pid is None or o.get("path") is None:
            ao, av = "argerr", None  # the client requires both
        else:
            ao, av = run_api(ra, lambda s: s.store_object(pid, INP[o["path"]], o.get("algo"), o.get("checksum"),
                                                          o.get("checksum_algo"), size_of(o.get("obj_size"))))
        if ao == "ok" and co == "ok":
            for v in [av.cid, str(av.obj_size)] + list(av.hex_digests.values()):
                if v not in cout:
                    errs.append("client output lacks a value the API reports (cid / size / digest)")
                    break
            if set(k for k in common.ALL_ALGOS if ("'%s'" % k) in cout) != set(av.hex_digests):
                errs.append("client reports a different set of digest algorithms than the API")
    elif verb == "getchecksum":
        if pid is None or o.get("algo") is None:
            ao, av = "argerr", None
        else:
            ao, av = run_api(ra, lambda s: s.get_hex_digest(pid, o["algo"]))
        if ao == "ok" and co == "ok" and av not in cout:
            errs.append("client output lacks the digest the API reports")
    elif verb == "retrieveobject":
        ao, av = run_api(ra, lambda s: s.retrieve_object(pid).read())
        if ao == "ok" and co == "ok" and av[:1000].decode("utf-8", "ignore") not in cout:
            errs.append("client output lacks the object's first bytes")
        elif ao == "ok" and co == "ok" and len(av) > 1000:
            # ... and it shows the first 1000 BYTES, as the API's stream.read(1000) gives them - not more
            pre = av[:1000].decode("utf-8", "ignore")  # the characters that lie completely within the first 1000 bytes
            nxt = av[len(pre.encode("utf-8")):][:40].decode("utf-8", "ignore")[:8]  # (eight characters: print() adds a newline)
            if len(nxt) == 8 and (pre + nxt) in cout:
                errs.append("client shows more of the object than the first 1000 bytes")
    elif verb == "deleteobject":
        ao, av = run_api(ra, lambda s: s.delete_object(pid))
    elif verb == "storemetadata":
        ao, av = run_api(ra, lambda s: s.store_metadata(pid, INP[o["path"]], fmt if fmt is not None else NS))
        if ao == "ok" and co == "ok" and os.path.relpath(av, ra) not in cout.replace(rc + "/", ""):
            errs.append("client output lacks the metadata path the API reports")
    elif verb == "retrievemetadata":
        ao, av = run_api(ra, lambda s: s.retrieve_metadata(pid, fmt if fmt is not None else NS).read())
        if ao == "ok" and co == "ok" and av[:1000].decode("utf-8", "ignore") not in cout:
            errs.append("client output lacks the document's first bytes")
        elif ao == "ok" and co == "ok" and len(av) > 1000:
            pre = av[:1000].decode("utf-8", "ignore")  # the characters that lie completely within the first 1000 bytes
            nxt = av[len(pre.encode("utf-8")):][:40].decode("utf-8", "ignore")[:8]  # (eight characters: print() adds a newline)
            if len(nxt) == 8 and (pre + nxt) in cout:
                errs.append("client shows more of the document than the first 1000 bytes")
    elif verb == "deletemetadata":
        ao, av = run_api(ra, lambda s: s.delete_metadata(pid, fmt if fmt is not None else NS))
    else:
        raise ValueError(verb)
    if ao != co:
        errs.append("client outcome %s, API outcome %s" % (co, ao))
    if abs_of(rc).key() != abs_of(ra).key():
        errs.append("client and API leave different store states")
    sig_opts = sorted(k for k, v in o.items() if v is not None and k not in ("pid", "path"))
    return verb, sig_opts, (co, ao), [({"kind": "client", "verb": verb, "options": sig_opts, "what": e},
                                       {"argv": argv[1:], "client": co, "api": ao}) for e in errs]


def _create(cfg):
    """-chs: a store created by the client is opened by the API with the same properties, and vice versa."""
    from hashstore.filehashstore import FileHashStore
    d, w, a, ns = cfg
    errs = []
    root = os.path.join(common.scratch(), "c20-create")
    import shutil
    shutil.rmtree(root, ignore_errors=True)
    co, _ = run_client([root, "-chs", "-dp=%d" % d, "-wp=%d" % w, "-ap=%s" % a, "-nsp=%s" % ns])
    if co != "ok":
        errs.append("client could not create a store (%s)" % co)
    else:
        try:
            s = FileHashStore({"store_path": root, "store_depth": d, "store_width": w, "store_algorithm": a,
                               "store_metadata_namespace": ns})
            md = s.store_object("p", INP["obj2"])
            if md.cid != hashlib.new(STORE_ALGOS[a], OBJ2).hexdigest():
                errs.append("store created by the client does not use the configured algorithm")
        except Exception as e:  # noqa: BLE001
            errs.append("API refuses the store the client created (%s)" % type(e).__name__)
        try:
            FileHashStore({"store_path": root, "store_depth": d + 1, "store_width": w, "store_algorithm": a,
                           "store_metadata_namespace": ns})
            errs.append("API opens the client's store with a different depth")
        except Exception:  # noqa: BLE001
            pass
    shutil.rmtree(root, ignore_errors=True)
    FileHashStore({"store_path": root, "store_depth": d, "store_width": w, "store_algorithm": a,
                   "store_metadata_namespace": ns})
    co, cout = run_client([root, "-storeobject", "-pid=q", "-path=" + INP["obj2"]])
    if co != "ok" or hashlib.new(STORE_ALGOS[a], OBJ2).hexdigest() not in cout:
        errs.append("client cannot use a store created by the API (%s)" % co)
    lay = Layout(d, w, a)
    t = {r: b for r, b in snapshot(root).items() if r != "python_client.log"}
    ab = abstract(t, lay, ("q",), (ns,))
    if ab.residue or ab.pid_refs.get("q") != hashlib.new(STORE_ALGOS[a], OBJ2).hexdigest():
        errs.append("client's store_object does not follow the store's layout")
    co, _ = run_client([root, "-chs", "-dp=%d" % d, "-wp=%d" % (w + 1), "-ap=%s" % a, "-nsp=%s" % ns])
    if co == "ok":
        errs.append("client re-creates an existing store with a different width")
    # create and use in ONE invocation: the store options (-ap, -nsp) and the verb's options (-algo, -formatid) are
    # different things although they look alike; both argument orders
    create = ["-chs", "-dp=%d" % d, "-wp=%d" % w, "-ap=%s" % a, "-nsp=%s" % ns]
    other_algo = "MD5" if a != "MD5" else "SHA-1"
    for label, verb in (("storemetadata -formatid", ["-storemetadata", "-pid=P", "-path=" + INP["doc2"], "-formatid=fmt2"]),
                        ("storeobject -algo", ["-storeobject", "-pid=P", "-path=" + INP["obj2"], "-algo=" + other_algo])):
        for order in ("store options first", "verb options first"):
            shutil.rmtree(root, ignore_errors=True)
            argv = [root] + (create + verb if order == "store options first" else verb + create)
            co, cout = run_client(argv)
            what = "create + %s in one call (%s): " % (label, order)
            if co != "ok":
                errs.append(what + "client fails (%s)" % co)
                continue
            try:
                s = FileHashStore({"store_path": root, "store_depth": d, "store_width": w, "store_algorithm": a,
                                   "store_metadata_namespace": ns})
            except Exception as e:  # noqa: BLE001
                errs.append(what + "the API refuses the store with the -chs values (%s)" % type(e).__name__)
                continue
            try:
                if verb[0] == "-storemetadata":
                    m = s.retrieve_metadata("P", "fmt2")
                    ok = m.read() == DOC2
                    m.close()
                    if not ok:
                        errs.append(what + "document under the given format has other bytes")
                else:
                    if s.get_hex_digest("P", a) != hashlib.new(STORE_ALGOS[a], OBJ2).hexdigest():
                        errs.append(what + "object not stored under the store algorithm")
                    if hashlib.new(STORE_ALGOS[other_algo], OBJ2).hexdigest() not in cout:
                        errs.append(what + "the additional algorithm's digest is not reported")
            except Exception as e:  # noqa: BLE001
                errs.append(what + "what the verb stored is not found through the API (%s)" % type(e).__name__)
    shutil.rmtree(root, ignore_errors=True)
    return [({"kind": "client-create", "what": e}, {"config": list(cfg)}) for e in errs]


def _env_case(verb):
    """The README's switch for the synchronisation mode is the environment variable USE_MULTIPROCESSING, read when a
    store is initialised.  A client call (without -knbvm) must leave it as the operator set it, so that the store it
    opens - and any store opened later in the process - is in the requested mode."""
    from .. import env
    env.install()  # Manager().list() etc. become in-process shims: no server processes are spawned
    errs = []
    rc = os.path.join(common.scratch(), "c20-env")
    restore(rc, BASE)
    for setting in ("True", "False"):
        os.environ["USE_MULTIPROCESSING"] = setting
        try:
            argv = [rc, "-" + verb, "-pid=held"] + (["-algo=md5"] if verb == "getchecksum" else []) + \
                (["-path=" + INP["doc2"]] if verb == "storemetadata" else [])
            run_client(argv)
            if os.environ.get("USE_MULTIPROCESSING") != setting:
                errs.append("client call changed USE_MULTIPROCESSING from %s to %s" % (
                    setting, os.environ.get("USE_MULTIPROCESSING")))
        finally:
            os.environ.pop("USE_MULTIPROCESSING", None)
    return [({"kind": "client-env", "verb": verb, "what": e}, {"verb": verb}) for e in errs]


BASE = None


def main(tier):
    global BASE
    rep = common.Report("C20", tier, "exploration")
    inputs()
    BASE = base_tree()
    cs = cases()
    n = 0
    classes = set()
    for verb, opts, outs, viol in pmap(_case, cs, chunksize=8):
        n += 1
        classes.add((verb, tuple(opts), outs))
        for sig, det in viol:
            rep.violation(sig, det)
    for viol in pmap(_env_case, ["getchecksum", "retrieveobject", "storemetadata", "retrievemetadata"]):
        n += 1
        for sig, det in viol:
            rep.violation(sig, det)
    grid = list(itertools.product((1, 3), (1, 2), list(STORE_ALGOS), (NS, "ns://other")))
    for viol in pmap(_create, grid):
        n += 1
        for sig, det in viol:
            rep.violation(sig, det)
    rep.coverage.update({
        "evaluations": n, "distinct_nontrivial": len(classes), "exhaustive": True, "create_configurations": len(grid),
        "rule": "verbs {storeobject, getchecksum, retrieveobject, deleteobject, storemetadata, retrievemetadata, deletemetadata} x "
                "every subset of the verb's options x value kinds (valid, other spelling, wrong, malformed) on a copy of a "
                "populated store, the corresponding API call on another copy; oracle: same outcome class, the API's values in "
                "the client's output, equal abstract store states (python_client.log ignored); plus create (-chs) over a "
                "2x2x5x2 configuration grid in both directions; distinct = (verb, option subset, outcome pair)",
    })
    rep.assumptions += ["hashstoreclient.main() is called in-process with sys.argv set (as the repository's tests do)",
                        "an omitted -formatid means the store's default namespace for all three metadata verbs",
                        "the -knbvm paths need a Postgres server and are out of scope"]
    return rep.finish([{"verb": "storeobject", "options": ["checksum", "checksum_algo", "obj_size"]}])


def replay(rep):
    r = rep["replay"]
    print(r)
    return 1
