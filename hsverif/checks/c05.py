"""C05 - reference bookkeeping is exact after every completed call (engine S, closure)."""
from .. import common, engine_s, ops as O
from ..specs import ModelSpec
from .seqreplay import replay_history


class C05Spec(ModelSpec):
    prop = "C05"
    pids = ("p", "p1", "1p")
    formats = ()

    def __init__(self, tier):
        super().__init__()
        self.key_dirs = tier == "thorough"
        ops = []
        for pid in self.pids:
            for c in ("A", "B"):
                ops.append(("store", pid, c, None))
            for c in ("A", "B", "N"):
                ops.append(("tag", pid, c))
            ops.append(("delete", pid))
            ops.append(("retrieve", pid))
        ops += [("store_nopid", "A"), ("store_nopid", "B"),
                ("dii", "A", "badsize"), ("dii", "B", "badck"), ("dii", "A", "ok"),
                ("store", "p", "A", "badck:md5"), ("store", "p1", "B", "badsize"),
                ("hexdigest", "p", "sha256"),
                ("store_meta", "p", None, "v1"), ("retrieve_meta", "p", None), ("delete_meta", "p", None)]
        self.ops = ops


class C05ListSpec(ModelSpec):
    """ORDER of the lines of one shared reference list: five pids related as tails / heads of one another ('1' is a tail of
    'v1' and of 'doc-v1', 'v1' a tail of 'doc-v1', '1' a head of '1v', 'readme' unrelated) are tagged to and deleted from one cid
    in every order - the closure holds every ordered subset of the five as list content (326 states)."""
    prop = "C05"
    pids = ("1", "v1", "doc-v1", "readme", "1v")
    formats = ()
    init_ops = (("store_nopid", "A"),)

    def __init__(self, tier):
        super().__init__()
        self.key_dirs = False
        self.ops = [op for pid in self.pids for op in (("tag", pid, "A"), ("delete", pid))]


def aligned_lists(rep):
    """Reference lists whose lines end exactly on multiples of the I/O buffer sizes (1024-character lines: 4 lines =
    4096, 8 lines = 8192 characters), before and after the alignment is shifted by a short pid: every bound pid
    must stay retrievable and the list must hold exactly the bound pids, one per line."""
    import os
    from ..absx import Layout
    from ..common import pattern, snapshot
    from hashstore.filehashstore import FileHashStore
    root = os.path.join(common.scratch(), "c05-aligned")
    store = FileHashStore(common.props(root))
    data = pattern(200, 5)
    path = os.path.join(common.scratch(), "c05_aligned.bin")
    with open(path, "wb") as f:
        f.write(data)
    import hashlib
    cid = hashlib.sha256(data).hexdigest()
    lay = Layout()
    long_pids = ["%04d" % i + "x" * 1019 for i in range(12)]
    bound = []
    n = 0

    def audit(step):
        nonlocal n
        n += 1
        t = snapshot(root)
        lst = t.get(lay.cid_ref_path(cid))
        lines = lst.decode().split("\n")[:-1] if lst else []
        if sorted(lines) != sorted(bound):
            rep.violation({"kind": "aligned-list", "what": "reference list does not hold exactly the bound pids"},
                          {"step": step, "listed": len(lines), "bound": len(bound)})
        for p in bound:
            try:
                s = store.retrieve_object(p)
                ok = s.read() == data
                s.close()
            except Exception as e:  # noqa: BLE001
                ok = False
            if not ok:
                rep.violation({"kind": "aligned-list", "what": "a bound pid is not retrievable when list lines end on a buffer boundary"},
                              {"step": step, "pid": p[:8], "pids_bound": len(bound)})
                break

    def do(step, fn, pid, add):
        try:
            fn()
        except Exception as e:  # noqa: BLE001
            rep.violation({"kind": "aligned-list", "what": "a call that must succeed raised %s" % type(e).__name__},
                          {"step": step})
            return
        (bound.append if add else bound.remove)(pid)
        audit(step)

    do("store short", lambda: store.store_object("s", path), "s", True)
    for i, p in enumerate(long_pids[:10]):
        do("store long %d" % i, lambda p=p: store.store_object(p, path), p, True)
    do("delete short (lines now end on 1024 multiples)", lambda: store.delete_object("s"), "s", False)
    do("tag long 10", lambda: store.tag_object(long_pids[10], cid), long_pids[10], True)
    do("delete long 7", lambda: store.delete_object(long_pids[7]), long_pids[7], False)
    do("store long 11", lambda: store.store_object(long_pids[11], path), long_pids[11], True)
    do("delete long 3", lambda: store.delete_object(long_pids[3]), long_pids[3], False)
    do("store short again", lambda: store.store_object("s", path), "s", True)
    for p in list(bound):
        do("delete %s" % p[:6], lambda p=p: store.delete_object(p), p, False)
    t = snapshot(root)
    left = [r for r, b in t.items() if b is not None and r != "hashstore.yaml"]
    if left:
        rep.violation({"kind": "aligned-list", "what": "files remain after every pid was deleted"}, {"files": left[:4]})
    rep.coverage["aligned_list_steps"] = n


def _align_job(job):
    """One share of the alignment sweep: for every shift s of the share, a reference list `filler(s), L0 .. L8` (long lines of
    exactly 1024 characters incl. the newline) is built through the API, so that line ends fall on the character offsets
    s, s+1024, ..., s+9216; after every step the list must hold exactly the bound pids and every bound pid must be
    retrievable."""
    import hashlib
    import os
    import shutil
    from ..absx import Layout
    from ..common import pattern, snapshot
    from hashstore.filehashstore import FileHashStore
    shifts, unit = job
    data = pattern(200, 5)
    path = os.path.join(common.scratch(), "c05_align.bin")
    with open(path, "wb") as f:
        f.write(data)
    cid = hashlib.sha256(data).hexdigest()
    lay = Layout()
    out = []
    steps = 0
    for s in shifts:
        root = os.path.join(common.scratch(), "c05-align")
        shutil.rmtree(root, ignore_errors=True)
        store = FileHashStore(common.props(root))
        filler = unit * s
        longs = ["%02d" % i + unit * 1021 for i in range(11)]  # 1023 characters + newline = 1024 per line
        bound = []
        bad = None

        def audit(step):
            nonlocal bad, steps
            steps += 1
            t = snapshot(root)
            lst = t.get(lay.cid_ref_path(cid))
            lines = lst.decode().split("\n")[:-1] if lst else []
            if sorted(lines) != sorted(bound):
                bad = ("reference list does not hold exactly the bound pids", step)
                return False
            for p_ in bound:
                try:
                    st = store.retrieve_object(p_)
                    ok = st.read() == data
                    st.close()
                except Exception as e:  # noqa: BLE001
                    ok = False
                if not ok:
                    bad = ("a bound pid is not retrievable", step + ": pid #%d of %d" % (bound.index(p_), len(bound)))
                    return False
            return True

        def do(step, fn, pid, add):
            nonlocal bad
            try:
                fn()
            except Exception as e:  # noqa: BLE001
                bad = ("a call that must succeed raised %s" % type(e).__name__, step)
                return False
            (bound.append if add else bound.remove)(pid)
            return audit(step)

        seq = [("store filler", lambda: store.store_object(filler, path), filler, True)]
        seq += [("tag long %d" % i, (lambda p_=longs[i]: store.tag_object(p_, cid)), longs[i], True) for i in range(9)]
        seq += [("delete long 4", lambda: store.delete_object(longs[4]), longs[4], False),
                ("tag long 9", lambda: store.tag_object(longs[9], cid), longs[9], True),
                ("delete filler", lambda: store.delete_object(filler), filler, False),
                ("store long 10", lambda: store.store_object(longs[10], path), longs[10], True)]
        ok = True
        for step, fn, pid, add in seq:
            if not do(step, fn, pid, add):
                ok = False
                break
        if ok:
            for p_ in list(bound):
                if not do("delete all", (lambda p_=p_: store.delete_object(p_)), p_, False):
                    ok = False
                    break
        if ok:
            left = [r for r, b in snapshot(root).items() if b is not None and r != "hashstore.yaml"]
            if left:
                bad = ("files remain after every pid was deleted", left[0])
        if bad:
            out.append((s, bad[0], bad[1]))
    return out, steps


def alignment_sweep(rep, tier):
    """EVERY alignment of a reference list's line ends relative to the start of the file, for offsets 1 .. 10240: the filler
    pid's length s runs through 1 .. 1024 and the long lines are 1024 characters, so the line ends of the lists built here
    fall on every character offset of that range - in particular on, just before and just after every multiple of every
    block size up to 8192 a block-wise scan or an in-place rewrite might use.  Thorough: the same with two-byte characters
    (character offsets and byte offsets then differ)."""
    from ..par import pmap
    units = ["x"] + (["\u00e9"] if tier == "thorough" else [])
    n = 0
    steps = 0
    for unit in units:
        shifts = list(range(1, 1025))
        jobs = [(shifts[k::32], unit) for k in range(32)]
        for out, st in pmap(_align_job, jobs):
            steps += st
            for s, what, step in out:
                n += 1
                rep.violation({"kind": "list-alignment", "what": what + " when a line of the reference list ends at a particular offset"},
                              {"filler_length": s, "step": step, "unit": unit, "line_ends_at": [s + 1024 * j for j in range(10)]})
    rep.coverage["alignment_sweep"] = {"shifts": 1024 * len(units), "line_end_offsets_covered": "every offset 1..10240",
                                       "audited_steps": steps, "violating_shifts": n}


def _window_job(job):
    """Reference lists longer than a power-of-two block size B in which the line of a target pid STARTS (and, in a second
    family, ENDS) at every BYTE offset B-8 .. B+8 - both when it is stored there directly and when an earlier delete shifts
    it there - for target pids made of 1-, 2-, 3- and 4-byte UTF-8 characters.  After every call the list must hold exactly
    the bound pids and every bound pid must be retrievable."""
    import hashlib
    import os
    import shutil
    from ..absx import Layout
    from ..common import pattern, snapshot
    from hashstore.filehashstore import FileHashStore
    B, unit, families = job
    data = pattern(200, 5)
    path = os.path.join(common.scratch(), "c05_window.bin")
    with open(path, "wb") as f:
        f.write(data)
    cid = hashlib.sha256(data).hexdigest()
    lay = Layout()
    out = []
    steps = 0
    target = "T" + unit * 24
    tlen = len((target + "\n").encode("utf-8"))
    for family in families:
        for delta in range(-8, 9):
            # bytes before the target's line once the short pid 'a' (2 bytes with its newline) has been deleted
            before = B + delta - (0 if family == "line starts" else tlen)
            if before < 10:
                continue
            root = os.path.join(common.scratch(), "c05-window")
            shutil.rmtree(root, ignore_errors=True)
            store = FileHashStore(common.props(root))
            # filler lines of at most 4000 bytes each (ASCII: bytes == characters), numbered so that they are distinct pids
            fill, left, i = [], before, 0
            while left > 0:
                n = min(4000, left)
                if left - n in range(1, 6):
                    n -= 6  # never leave a filler line shorter than 'Fxx\n'
                name = ("F%02d" % i + "f" * 4000)[:n - 1]
                fill.append(name)
                left -= n
                i += 1
            bound = []
            bad = None

            def audit(step):
                nonlocal bad, steps
                steps += 1
                t = snapshot(root)
                lst = t.get(lay.cid_ref_path(cid))
                lines = lst.decode("utf-8").split("\n")[:-1] if lst else []
                if sorted(lines) != sorted(bound):
                    bad = ("reference list does not hold exactly the bound pids", step)
                    return False
                # retrieved: the target, its neighbours and the first / last lines (every pid's LINE is compared above)
                probe = [p_ for p_ in bound if target in p_ or p_.startswith("tail") or p_ == "a"] + fill[:1] + fill[-2:]
                for p_ in probe:
                    if p_ not in bound:
                        continue
                    try:
                        st = store.retrieve_object(p_)
                        ok = st.read() == data
                        st.close()
                    except Exception as e:  # noqa: BLE001
                        ok = False
                    if not ok:
                        bad = ("a bound pid is not retrievable", step + ": %s" % ("the target pid" if p_ == target else "pid #%d of %d" % (bound.index(p_), len(bound))))
                        return False
                return True

            def do(step, fn, pid, add):
                nonlocal bad
                try:
                    fn()
                except Exception as e:  # noqa: BLE001
                    bad = ("a call that must succeed raised %s" % type(e).__name__, step)
                    return False
                (bound.append if add else bound.remove)(pid)
                return True if step.startswith("tag filler") else audit(step)

            seq = [("store a", lambda: store.store_object("a", path), "a", True)]
            seq += [("tag filler %d" % k, (lambda p_=f_: store.tag_object(p_, cid)), f_, True) for k, f_ in enumerate(fill)]
            seq += [("tag target", lambda: store.tag_object(target, cid), target, True),
                    ("tag tail 1", lambda: store.tag_object("tail-1" + unit, cid), "tail-1" + unit, True),
                    ("tag tail 2", lambda: store.tag_object("tail-2", cid), "tail-2", True),
                    ("delete a (the target's line moves to the offset under test)", lambda: store.delete_object("a"), "a", False),
                    ("delete tail 1", lambda: store.delete_object("tail-1" + unit), "tail-1" + unit, False),
                    ("delete target", lambda: store.delete_object(target), target, False),
                    ("tag target again (now last line)", lambda: store.tag_object(target, cid), target, True),
                    # in a list of this length: a pid that is a proper SUFFIX of the last line, and one that is a proper PREFIX of it
                    ("tag holder (last line)", lambda: store.tag_object("holder/" + target + "/v1", cid), "holder/" + target + "/v1", True),
                    ("tag a suffix of the last line", lambda: store.tag_object(target + "/v1", cid), target + "/v1", True),
                    ("tag a prefix of an earlier line", lambda: store.tag_object("holder/" + target, cid), "holder/" + target, True),
                    ("delete holder", lambda: store.delete_object("holder/" + target + "/v1"), "holder/" + target + "/v1", False)]
            ok = True
            for step, fn, pid, add in seq:
                if not do(step, fn, pid, add):
                    ok = False
                    break
            if ok:
                for p_ in list(bound):
                    try:
                        store.delete_object(p_)
                        bound.remove(p_)
                    except Exception as e:  # noqa: BLE001
                        bad = ("a call that must succeed raised %s" % type(e).__name__, "delete all")
                        break
                if not bad and [r for r, b in snapshot(root).items() if b is not None and r != "hashstore.yaml"]:
                    bad = ("files remain after every pid was deleted", "end")
            if bad:
                out.append((family, delta, bad[0], bad[1]))
    shutil.rmtree(os.path.join(common.scratch(), "c05-window"), ignore_errors=True)
    return B, unit, out, steps


def boundary_windows(rep, tier):
    from ..par import pmap
    blocks = [4096, 8192, 16384, 32768, 65536, 131072] + ([262144, 1048576] if tier == "thorough" else [])
    units = ["x", "\u00e9", "\u6f22", "\U0001F600"]
    steps = n = 0
    jobs = [(B, u, (fam,)) for B in reversed(blocks) for u in units for fam in ("line starts", "line ends")]
    for B, unit, out, st in pmap(_window_job, jobs):
        steps += st
        for family, delta, what, step in out:
            n += 1
            rep.violation({"kind": "list-boundary", "what": what + " when a pid's line starts or ends next to a block boundary of the reference list"},
                          {"block": B, "unit_bytes": len(unit.encode("utf-8")), "family": family, "delta": delta, "step": step})
    rep.coverage["boundary_windows"] = {"block_sizes": blocks, "utf8_bytes_per_character": [1, 2, 3, 4], "byte_offsets": "B-8 .. B+8 for the start and for the end of the target line",
                                        "lists": len(blocks) * len(units) * 34, "audited_steps": steps, "violating_lists": n}


def main(tier):
    rep = common.Report("C05", tier, "model_checking")
    aligned_lists(rep)
    alignment_sweep(rep, tier)
    boundary_windows(rep, tier)
    from ._s import run_spec
    lres = run_spec(rep, C05ListSpec(tier), "list-order", time_cap=120 if tier == "quick" else 3000)
    list_part = dict(rep.coverage.get("parts", {}).get("list-order", {}))
    spec = C05Spec(tier)
    res = engine_s.explore(spec, time_cap=120 if tier == "quick" else 3000, seed=common.SEED)
    for sig, det in res.violations:
        rep.violation(sig, det)
    rep.coverage.update({
        "states": res.states, "transitions": res.transitions,
        "traces_validated_against_impl": res.transitions,
        "max_depth": res.max_depth, "closure_reached": res.closed, "exhaustive": res.closed,
        "cap_hit": res.cap, "alphabet": len(spec.ops), "pruned_violating_transitions": res.pruned,
        "distinct_outcomes": len(res.outcomes),
        "outcomes": {"%s->%s" % k: v for k, v in sorted(res.outcomes.items())},
        "dedup_key": "exact tree incl. empty directories" if spec.key_dirs else "tree without empty directories",
    })
    rep.coverage.pop("parts", None)
    rep.coverage["list_order_closure"] = {k: list_part.get(k) for k in ("states", "transitions", "max_depth", "closure_reached", "alphabet")}
    rep.coverage["exhaustive"] = bool(res.closed and lres.closed)
    rep.assumptions += ["every transition runs the real method on a fresh FileHashStore over the materialised tree",
                        "alphabet: pids p/p1/1p, contents A/B, cids cA/cB/never-stored"]
    return rep.finish(res.samples)


def replay(rep):
    kind = rep.get("signature", {}).get("kind")
    if kind == "list-alignment":
        r = rep["replay"]
        out, steps = _align_job(([r["filler_length"]], r.get("unit", "x")))
        for s, what, step in out:
            print("filler pid of %d characters, step '%s': %s" % (s, step, what))
        print("replayed 1 shift (%d audited steps), %d violations" % (steps, len(out)))
        return 1 if out else 0
    if kind == "list-boundary":
        r = rep["replay"]
        unit = {1: "x", 2: "\u00e9", 3: "\u6f22", 4: "\U0001F600"}[r["unit_bytes"]]
        B, u, out, steps = _window_job((r["block"], unit, (r["family"],)))
        for family, delta, what, step in out:
            print("block %d, %s at offset B%+d, step '%s': %s" % (B, family, delta, step, what))
        return 1 if out else 0
    if kind == "aligned-list":
        sub = type("Sub", (), {"coverage": {}, "found": []})()
        sub.violation = lambda sig, det: sub.found.append((sig, det))
        aligned_lists(sub)
        for sig, det in sub.found:
            print("VIOLATION:", sig.get("what"), det)
        return 1 if sub.found else 0
    if rep.get("signature", {}).get("part") == "list-order":
        return replay_history(C05ListSpec("thorough"), rep)
    return replay_history(C05Spec("thorough"), rep)
