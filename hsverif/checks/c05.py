"""C05 - reference bookkeeping is exact after every completed call (engine S, closure)."""
from .. import common, engine_s, ops as O
from ..specs import ModelSpec
from .seqreplay import replay_history


class C05Spec(ModelSpec):
    prop = "C05"
    pids = ("p", "p1", "1p")
    formats = ()

    def __init__(self, tier):
        super().__init__()
        self.key_dirs = tier == "thorough"
        ops = []
        for pid in self.pids:
            for c in ("A", "B"):
                ops.append(("store", pid, c, None))
            for c in ("A", "B", "N"):
                ops.append(("tag", pid, c))
            ops.append(("delete", pid))
            ops.append(("retrieve", pid))
        ops += [("store_nopid", "A"), ("store_nopid", "B"),
                ("dii", "A", "badsize"), ("dii", "B", "badck"), ("dii", "A", "ok"),
                ("store", "p", "A", "badck:md5"), ("store", "p1", "B", "badsize"),
                ("hexdigest", "p", "sha256"),
                ("store_meta", "p", None, "v1"), ("retrieve_meta", "p", None), ("delete_meta", "p", None)]
        self.ops = ops


def main(tier):
    rep = common.Report("C05", tier, "model_checking")
    spec = C05Spec(tier)
    res = engine_s.explore(spec, time_cap=240 if tier == "quick" else 3000, seed=common.SEED)
    for sig, det in res.violations:
        rep.violation(sig, det)
    rep.coverage.update({
        "states": res.states, "transitions": res.transitions,
        "traces_validated_against_impl": res.transitions,
        "max_depth": res.max_depth, "closure_reached": res.closed, "exhaustive": res.closed,
        "cap_hit": res.cap, "alphabet": len(spec.ops), "pruned_violating_transitions": res.pruned,
        "distinct_outcomes": len(res.outcomes),
        "outcomes": {"%s->%s" % k: v for k, v in sorted(res.outcomes.items())},
        "dedup_key": "exact tree incl. empty directories" if spec.key_dirs else "tree without empty directories",
    })
    rep.assumptions += ["every transition runs the real method on a fresh FileHashStore over the materialised tree",
                        "alphabet: pids p/p1/1p, contents A/B, cids cA/cB/never-stored"]
    return rep.finish(res.samples)


def replay(rep):
    return replay_history(C05Spec("thorough"), rep)
