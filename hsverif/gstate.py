"""Hidden in-memory state of the package: module globals, class attributes, memoising decorators.

The explorers re-execute the real code many times inside one worker process and treat every execution as starting from
a fresh interpreter state.  The pinned package keeps nothing outside its instances (two constant lists on the class),
but a change to it may (a free list of buffers on a class, a module-level memo, an `lru_cache`).  This module owns
that state:

  capture()      remember the pristine value of every container-valued global / class attribute of the package's
                 modules and every object with `cache_clear` (taken once per process, before any store call);
  reset()        put all of it back (called before every execution / transition);
  drift()        what differs from pristine now, by value where it can be pickled;
  fingerprint(v) order-preserving structural digest of arbitrary values (hash objects by their current digest,
                 buffers by content) - used in state keys where a value cannot be carried by pickling.
"""
import copy
import hashlib
import pickle
import sys
import types

_CONTAINERS = (list, dict, set, bytearray)
_PRISTINE = None  # {(owner-name, attr): (owner, pristine copy)}
_UNCOPYABLE = set()  # attributes that existed at capture but could not be copied
_CACHES = None  # [(name, obj)] objects with cache_clear / cache_info


def _modules():
    return [m for n, m in sorted(sys.modules.items()) if (n == "hashstore" or n.startswith("hashstore.")) and m is not None]


_OWNERS = None


def _owners():
    global _OWNERS
    if _OWNERS is not None:
        return _OWNERS
    out = []
    for m in _modules():
        out.append((m.__name__, m))
        for n, v in sorted(vars(m).items()):
            if isinstance(v, type) and getattr(v, "__module__", None) == m.__name__:
                out.append((m.__name__ + "." + n, v))
    if any(n == "hashstore.filehashstore" for n, _ in out):
        _OWNERS = out  # modules and classes of the package do not change after import
    return out


def _scan():
    cont, caches = {}, []
    for oname, o in _owners():
        for n, v in list(vars(o).items()):
            if n[:2] == "__":
                continue
            if isinstance(v, _CONTAINERS):
                cont[(oname, n)] = (o, v)
            f = v.__func__ if isinstance(v, (staticmethod, classmethod)) else v
            if hasattr(f, "cache_clear") and hasattr(f, "cache_info"):
                caches.append((oname + "." + n, f))
    return cont, caches


def capture():
    global _PRISTINE, _CACHES
    if _PRISTINE is not None:
        return
    cont, caches = _scan()
    _PRISTINE = {}
    for k, (o, v) in cont.items():
        try:
            _PRISTINE[k] = (o, copy.deepcopy(v))
        except Exception:  # noqa: BLE001 - cannot be copied: existed at capture, left alone, fingerprinted only
            _UNCOPYABLE.add(k)
    _CACHES = caches


def reset():
    """Restore pristine globals; new container-valued globals that appeared since are removed."""
    capture()
    cont, caches = _scan()
    for k, (o, v) in cont.items():
        if k in _PRISTINE:
            p = _PRISTINE[k][1]
            if v != p or type(v) is not type(p):
                _set(o, k[1], copy.deepcopy(p))
        elif k not in _UNCOPYABLE:
            try:
                delattr(o, k[1])
            except Exception:  # noqa: BLE001
                _set(o, k[1], type(v)())
    for k, (o, p) in _PRISTINE.items():
        if k not in cont:
            _set(o, k[1], copy.deepcopy(p))
    for _, f in caches:
        try:
            f.cache_clear()
        except Exception:  # noqa: BLE001
            pass


def _set(o, n, v):
    try:
        setattr(o, n, v)
    except Exception:  # noqa: BLE001
        pass


def drift():
    """(by_value, opaque): by_value {key: value} of picklable drifted globals; opaque: fingerprint (or None) of what
    cannot be carried by value (unpicklable containers, populated memoising caches)."""
    capture()
    cont, caches = _scan()
    byv, opq = {}, []
    for k, (o, v) in sorted(cont.items()):
        p = _PRISTINE.get(k)
        if p is not None and v == p[1] and type(v) is type(p[1]):
            continue
        try:
            byv[k] = pickle.loads(pickle.dumps(v))
        except Exception:  # noqa: BLE001
            opq.append((k, fingerprint(v)))
    for n, f in caches:
        try:
            if f.cache_info().currsize:
                opq.append((n, "cache:%d" % f.cache_info().currsize))
        except Exception:  # noqa: BLE001
            opq.append((n, "cache:?"))
    return byv, (tuple(opq) or None)


def apply(byv):
    """Install drifted globals carried by value."""
    owners = dict(_owners())
    for (oname, n), v in byv.items():
        if oname in owners:
            _set(owners[oname], n, copy.deepcopy(v))


def globals_key():
    """Fingerprint of everything that differs from pristine (None when nothing does) - part of engine T's state key."""
    byv, opq = drift()
    if not byv and not opq:
        return None
    return fingerprint((sorted(byv.items()), opq))


def fingerprint(v, _depth=0):
    """Structural digest of an arbitrary value; keeps order where the type does."""
    h = hashlib.blake2b(digest_size=10)
    _fp(v, h, _depth)
    return h.hexdigest()


def _fp(v, h, d):
    if d > 12:
        h.update(b"<deep>")
        return
    t = type(v)
    if v is None or t in (bool, int, float, str, bytes):
        h.update(repr((t.__name__, v)).encode("utf-8", "surrogateescape"))
    elif t in (bytearray, memoryview):
        try:
            h.update(b"buf" + bytes(v))
        except Exception:  # noqa: BLE001
            h.update(b"buf?")
    elif t in (list, tuple):
        h.update(t.__name__.encode() + b"[")
        for x in v:
            _fp(x, h, d + 1)
            h.update(b",")
        h.update(b"]")
    elif isinstance(v, dict):
        h.update(b"{")
        for k, x in v.items():  # insertion order is observable
            _fp(k, h, d + 1)
            h.update(b":")
            _fp(x, h, d + 1)
            h.update(b",")
        h.update(b"}")
    elif isinstance(v, (set, frozenset)):
        h.update(b"set" + repr(sorted(fingerprint(x, d + 1) for x in v)).encode())
    elif hasattr(v, "hexdigest") and hasattr(v, "name") and hasattr(v, "copy"):
        try:
            h.update(("hash:%s:%s" % (v.name, v.copy().hexdigest() if "shake" not in v.name else v.copy().hexdigest(16))).encode())
        except Exception:  # noqa: BLE001
            h.update(b"hash?")
    elif isinstance(v, (types.FunctionType, types.BuiltinFunctionType, type, types.ModuleType)):
        h.update(("obj:" + getattr(v, "__qualname__", getattr(v, "__name__", "?"))).encode())
    elif hasattr(v, "__fspath__"):
        h.update(("path:" + str(v)).encode("utf-8", "surrogateescape"))
    elif hasattr(v, "__dict__") and d < 6:
        h.update(("inst:" + t.__name__).encode())
        _fp({k: x for k, x in vars(v).items() if not k.startswith("__")}, h, d + 1)
    else:
        h.update(("opaque:" + t.__name__).encode())
