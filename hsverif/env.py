"""Interposition layer: owns every source of nondeterminism of FileHashStore from OUTSIDE the package.

Replaced module attributes (process-wide, but active only for *controlled* threads and only for
paths under the current scratch store root): os.{stat,lstat,mkdir,rmdir,remove,unlink,rename,
replace,open,chmod,listdir,scandir,truncate,link,symlink,sendfile,utime}, builtins.open / io.open
(rebuilt as the same layer stack over a FileIO subclass so that every raw read/write/truncate is
visible), fcntl.flock, tempfile._name_sequence, and the package's `threading` / `multiprocessing`
/ `atexit` references (cooperative lock shims).

A controlled thread has a *worker* in thread-local storage.  Before every visible operation the
layer calls worker.point(op, pred); the worker decides what that means (park for the scheduler,
take a crash snapshot, raise an injected OSError).  After the operation worker.obs(...) receives
the result so that a thread's local state is a function of what it has observed.
"""
import builtins
import errno as _errno
import fcntl
import hashlib
import io
import itertools
import os
import stat as _stat
import tempfile
import threading
import types

REAL = {}
CUR = threading.local()
STATE = types.SimpleNamespace(root=None, installed=False, shims=[], files=[], flocks={}, mainctr=itertools.count(),
                              dirty=set(), outside=None, slists=[], shared_private=set(), priv_owner={}, escapes=[], audit=False, fdpaths={}, vclock=0.0, frozen_mtime=False, list_reverse=False,
                              audited=0)

TMP_PREFIXES = ("objects/tmp", "metadata/tmp", "refs/tmp")


def cur():
    return getattr(CUR, "w", None)


class _InLayer:
    """Marks 'the layer itself is executing the real operation now' for the audit hook below."""
    __slots__ = ()

    def __enter__(self):
        CUR.inreal = getattr(CUR, "inreal", 0) + 1

    def __exit__(self, *a):
        CUR.inreal -= 1


IN_LAYER = _InLayer()

_FS_EVENTS = {"open": 1, "os.rename": 2, "os.remove": 1, "os.rmdir": 1, "os.mkdir": 1, "os.listdir": 1, "os.scandir": 1,
              "os.chmod": 1, "os.chown": 1, "os.truncate": 1, "os.link": 2, "os.symlink": 2, "os.utime": 1,
              "os.setxattr": 1, "os.removexattr": 1, "os.mkfifo": 1, "os.mknod": 1}


def _audit(event, args):
    """Escape detector (sys.addaudithook): every path-taking file-system call the interpreter performs on a
    controlled thread for a path under the store root must have come through this layer.  Anything else (a
    function imported by name before the layer was installed, a dir_fd-relative call, a primitive the layer does
    not wrap) is recorded; the engines turn a non-empty record into a harness error - the exploration would not
    own that operation, so its verdict could not be trusted."""
    n = _FS_EVENTS.get(event)
    if n is None or not STATE.installed:
        return
    w = getattr(CUR, "w", None)
    if w is None or getattr(CUR, "inreal", 0):
        if w is not None:
            STATE.audited += 1
        return
    for x in args[:n]:
        if isinstance(x, int) or x is None:
            continue
        r = relp(x)
        if r is not None:
            STATE.escapes.append((event, r))
            return
        try:
            if not os.path.isabs(os.fspath(x)) and any(isinstance(a, int) and a >= 0 for a in args[n:] if a is not None) \
                    and event != "open":
                STATE.escapes.append((event, "dir_fd-relative:" + str(x)))
        except TypeError:
            pass


def check_escapes():
    from .common import HarnessError
    if STATE.escapes:
        e = sorted(set(STATE.escapes))[:5]
        raise HarnessError("file-system access bypassed the interposition layer: %r" % (e,))


def set_root(root):
    STATE.root = os.path.abspath(root)


def reset_execution():
    """Forget per-execution registries (shim objects, open files, flock holders)."""
    STATE.shims = []
    STATE.files = []
    STATE.flocks = {}
    STATE.dirty = set()
    STATE.slists = []
    STATE.priv_owner = {}
    STATE.fdpaths = {}
    STATE.vclock = 0.0
    from . import gstate
    gstate.reset()  # module globals / class attributes / memoising caches of the package back to their pristine values


def relp(p):
    """Path relative to the store root, or None when `p` is not under it."""
    if isinstance(p, int) or STATE.root is None:
        return None
    try:
        p = os.fspath(p)
    except TypeError:
        return None
    if isinstance(p, bytes):
        p = p.decode("utf-8", "surrogateescape")
    if not p.startswith("/"):
        p = os.path.join(os.getcwd(), p)
    p = os.path.normpath(p)
    root = STATE.root
    if root == "/":
        return p[1:] or "."
    if p == root:
        return "."
    if p.startswith(root + "/"):
        return p[len(root) + 1:]
    return None


def _resolve(x, dir_fd=None):
    """Path behind a directory descriptor / a name relative to one (shutil.rmtree and friends work through dir_fd)."""
    if isinstance(x, int):
        return STATE.fdpaths.get(x)
    if dir_fd is not None:
        try:
            p = os.fspath(x)
        except TypeError:
            return x
        if isinstance(p, bytes):
            p = p.decode("utf-8", "surrogateescape")
        if not p.startswith("/"):
            base = STATE.fdpaths.get(dir_fd)
            if base is not None:
                return os.path.join(base, p)
    return x


def is_private(r):
    return r is not None and r not in STATE.shared_private and any(r == t or r.startswith(t + "/") for t in TMP_PREFIXES)


def _touch_private(w, r):
    """Temp files are assumed to be touched by one thread only.  The assumption is checked: a temp path touched
    by a second thread is recorded in STATE.shared_private and is a visible (scheduled) path from then on; the
    explorers re-run a scenario whenever this set grew, so that it is visible from the first touch."""
    if r is None or r in TMP_PREFIXES:
        return
    o = STATE.priv_owner.get(r)
    if o is None:
        STATE.priv_owner[r] = w.name
    elif o != w.name:
        STATE.shared_private.add(r)


def canon(r):
    """Canonical form of a relative path for logs and keys: temp names -> tmp#."""
    if r is not None and is_private(r) and r not in TMP_PREFIXES:
        return r.rsplit("/", 1)[0] + "/tmp#"
    return r


# ----------------------------------------------------------------------------- os.* seams

KIND = {
    "stat": "probe", "lstat": "probe", "listdir": "probe", "scandir": "probe",
    "mkdir": "mkdir", "rmdir": "remove", "remove": "remove", "unlink": "remove",
    "rename": "rename", "replace": "rename", "link": "rename", "symlink": "rename",
    "chmod": "chmod", "truncate": "write", "utime": "chmod",
}


class FrozenStat:
    """Environment answer 'a file system whose timestamps have not ticked': every file carries the execution's virtual time
    (coarse timestamp granularity - 1 or 2 seconds on many file systems - makes files written in quick succession
    indistinguishable by mtime).  Everything else is the real stat result."""

    def __init__(self, st):
        self._st = st

    def __getattr__(self, n):
        if n in ("st_mtime", "st_ctime", "st_atime"):
            return VIRTUAL_EPOCH + STATE.vclock
        if n in ("st_mtime_ns", "st_ctime_ns", "st_atime_ns"):
            return int((VIRTUAL_EPOCH + STATE.vclock) * 10 ** 9)
        return getattr(self._st, n)

    def __getitem__(self, i):
        t = tuple(self._st)
        if i in (7, 8, 9) or (isinstance(i, int) and i < 0 and len(t) + i in (7, 8, 9)):
            return int(VIRTUAL_EPOCH + STATE.vclock)
        return t[i]

    def __iter__(self):
        return iter([self[i] for i in range(len(tuple(self._st)))])

    def __len__(self):
        return len(tuple(self._st))


class _OrderedScandir:
    """os.scandir result with a fixed entry order (the real iterator yields in file-system order)."""

    def __init__(self, it, reverse):
        with it:
            self._entries = sorted(it, key=lambda e: e.name, reverse=reverse)
        self._i = 0

    def __iter__(self):
        return self

    def __next__(self):
        if self._i >= len(self._entries):
            raise StopIteration
        e = self._entries[self._i]
        self._i += 1
        return e

    def close(self):
        self._i = len(self._entries)

    def __enter__(self):
        return self

    def __exit__(self, *a):
        self.close()


def _mk_hook(name, nargs):
    real = REAL["os." + name]
    kind = KIND[name]

    def hook(*a, **k):
        w = cur()
        if w is None:
            return real(*a, **k)
        if nargs == 2:
            dfds = (k.get("src_dir_fd"), k.get("dst_dir_fd"))
        else:
            dfds = (k.get("dir_fd"),)
        rs = [relp(_resolve(x, d)) for x, d in zip(a[:nargs], dfds)]
        if all(r is None for r in rs):
            if kind not in ("probe",) and STATE.outside is not None:
                STATE.outside.append((name,) + tuple(str(x) for x in a[:nargs]))
            return real(*a, **k)
        for r in rs:
            if r is not None and is_private(r):
                _touch_private(w, r)
        visible = any(r is not None and not is_private(r) for r in rs)
        op = (kind, name) + tuple(canon(r) for r in rs)
        w.real = tuple(r for r in rs if r is not None)
        if visible:
            w.point(op)
        else:
            w.private(op)
        if kind != "probe":
            # marked when the operation is actually executed (after the scheduling point)
            STATE.dirty.update(r for r in rs if r is not None)
        try:
            with IN_LAYER:
                res = real(*a, **k)
        except OSError as e:
            w.obs(op, "err", e.errno)
            raise
        if name in ("stat", "lstat"):
            w.obs(op, _stat.S_IFMT(res.st_mode), res.st_size if _stat.S_ISREG(res.st_mode) else 0)
            if STATE.frozen_mtime:
                res = FrozenStat(res)
        elif name == "listdir":
            # the order of a directory listing is arbitrary: the layer fixes it (sorted), or reversed when the scenario asks
            # for the other environment answer
            res = sorted(res, reverse=STATE.list_reverse)
            w.obs(op, tuple(res))
        elif name == "scandir":
            res = _OrderedScandir(res, STATE.list_reverse)
            w.obs(op, tuple(e.name for e in res._entries))
        else:
            w.obs(op, "ok")
        return res

    hook.__name__ = name
    return hook


def _os_open(path, flags, mode=0o777, *, dir_fd=None):
    w = cur()
    full = _resolve(path, dir_fd) if w is not None else path
    r = relp(full) if w is not None else None
    if r is None:
        if w is not None and STATE.outside is not None and flags & (os.O_CREAT | os.O_WRONLY | os.O_RDWR | os.O_TRUNC):
            STATE.outside.append(("os.open", str(path)))
        return REAL["os.open"](path, flags, mode, dir_fd=dir_fd)
    kind = "create" if flags & os.O_CREAT else ("open-w" if flags & (os.O_WRONLY | os.O_RDWR) else "open-r")
    if is_private(r):
        _touch_private(w, r)
    op = (kind, "os.open", canon(r))
    w.real = (r,)
    if is_private(r):
        w.private(op)
    else:
        w.point(op)
    if kind != "open-r":
        STATE.dirty.add(r)
    try:
        with IN_LAYER:
            fd = REAL["os.open"](path, flags, mode, dir_fd=dir_fd)
    except OSError as e:
        w.obs(op, "err", e.errno)
        raise
    STATE.fdpaths.pop(fd, None)
    try:
        if _stat.S_ISDIR(os.fstat(fd).st_mode):
            STATE.fdpaths[fd] = os.path.join(STATE.root, r) if r != "." else STATE.root
    except OSError:
        pass
    w.obs(op, "ok")
    return fd


def _os_sendfile(out_fd, in_fd, offset, count, *a, **k):
    w = cur()
    if w is not None:
        f = next((x for x in STATE.files if not x.closed and x._hs_fd == out_fd), None)
        if f is not None and f._hs_rel is not None:
            op = ("write", "sendfile", canon(f._hs_rel))
            w.real = (f._hs_real(),)
            if is_private(f._hs_rel):
                w.private(op)
            else:
                w.point(op)
            STATE.dirty.add(f._hs_real())
    return REAL["os.sendfile"](out_fd, in_fd, offset, count, *a, **k)


def _mk_fsync(name):
    def hook(fd):
        w = cur()
        if w is None:
            return REAL["os." + name](fd)
        n = fd.fileno() if hasattr(fd, "fileno") else fd
        f = next((x for x in STATE.files if not x.closed and x._hs_fd == n), None)
        real = f._hs_real() if f is not None and f._hs_rel is not None else relp(STATE.fdpaths.get(n))
        if real is None:
            return REAL["os." + name](fd)
        op = ("write", name, canon(real))
        w.real = (real,)
        if is_private(real):
            w.private(op)
        else:
            w.point(op)
        try:
            with IN_LAYER:
                r = REAL["os." + name](fd)
        except OSError as e:
            w.obs(op, "err", e.errno)
            raise
        w.obs(op, "ok")
        return r
    hook.__name__ = name
    return hook


# ----------------------------------------------------------------------------- open()


class HFileIO(io.FileIO):
    """FileIO whose kernel-visible operations are seams."""
    _hs_rel = None
    _hs_owner = None
    _hs_fd = -1

    def _hs_real(self):
        """Relative path of the file behind this descriptor (temp files are opened by directory)."""
        if self._hs_rel in TMP_PREFIXES:
            try:
                return relp(self.name) or self._hs_rel
            except Exception:  # noqa: BLE001
                return self._hs_rel
        return self._hs_rel

    def _hs_point(self, kind, name):
        w = cur()
        if w is None or self._hs_rel is None:
            return None
        real = self._hs_real()
        if is_private(real):
            _touch_private(w, real)
        op = (kind, name, canon(real))
        w.real = (real,)
        if is_private(real):
            w.private(op)
        else:
            w.point(op)
        if kind == "write":
            STATE.dirty.add(self._hs_real())
        return w, op

    def readinto(self, b):
        c = self._hs_point("read", "read")
        n = super().readinto(b)
        if c:
            c[0].obs(c[1], hashlib.blake2b(bytes(memoryview(b)[:n or 0]), digest_size=8).hexdigest())
        return n

    def readall(self):
        c = self._hs_point("read", "readall")
        d = super().readall()
        if c:
            c[0].obs(c[1], hashlib.blake2b(d, digest_size=8).hexdigest())
        return d

    def read(self, size=-1):
        c = self._hs_point("read", "read")
        d = super().read(size)
        if c:
            c[0].obs(c[1], hashlib.blake2b(d or b"", digest_size=8).hexdigest())
        return d

    def write(self, b):
        c = self._hs_point("write", "write")
        if c:
            allowed = c[0].adjust_write(c[1], len(b))
            if allowed < len(b):
                b = bytes(b)[:allowed]  # a short write(2): legal, the caller must write the rest
        n = super().write(b)
        if c:
            c[0].obs(c[1], n)
        return n

    def truncate(self, size=None):
        c = self._hs_point("write", "truncate")
        r = super().truncate(size)
        if c:
            c[0].obs(c[1], r)
        return r

    def close(self):
        pending = None
        if not self.closed:
            STATE.flocks.pop(self._hs_fd, None)
            if self._hs_rel is not None and self.writable() and cur() is not None:
                # close(2) of a file that was written can report an I/O error (write-back on network file systems, quota):
                # a fault site and crash point, never a scheduling point (it touches nothing another thread can see).
                # The descriptor is released even when the call fails.
                w = cur()
                real = self._hs_real()
                w.real = (real,)
                try:
                    w.private(("write", "close", canon(real)))
                except OSError as e:
                    pending = e
        try:
            r = super().close()
            if pending is not None:
                raise pending
            return r
        finally:
            if self in STATE.files:
                try:
                    STATE.files.remove(self)
                except ValueError:
                    pass


def _open(file, mode="r", buffering=-1, encoding=None, errors=None, newline=None, closefd=True, opener=None):
    w = cur()
    r = relp(file) if w is not None else None
    if r is None:
        if w is not None and STATE.outside is not None and any(c in mode for c in "wax+") and not isinstance(file, int):
            STATE.outside.append(("open:" + mode, str(file)))
        return REAL["open"](file, mode, buffering, encoding, errors, newline, closefd, opener)
    writing = any(c in mode for c in "wax+")
    creating = any(c in mode for c in "wax")
    kind = ("create" if creating else "open-w") if writing else "open-r"
    if opener is None and is_private(r):
        _touch_private(w, r)
    op = (kind, "open:" + mode.replace("b", "").replace("t", ""), canon(r))
    if opener is None:
        w.real = (r,)
        if is_private(r):
            w.private(op)
        else:
            w.point(op)
    if writing:
        STATE.dirty.add(r)
    binary = "b" in mode
    rawmode = mode.replace("b", "").replace("t", "")
    try:
        with IN_LAYER:
            raw = HFileIO(file, rawmode, closefd=closefd, opener=opener)
    except OSError as e:
        if opener is None:
            w.obs(op, "err", e.errno)
        raise
    if opener is None:
        w.obs(op, "ok")
    raw._hs_rel = r
    raw._hs_owner = w.name
    raw._hs_fd = raw.fileno()
    STATE.files.append(raw)
    result = raw
    try:
        line_buffering = False
        if buffering == 1 or buffering < 0 and raw.isatty():
            buffering = -1
            line_buffering = True
        if buffering < 0:
            buffering = io.DEFAULT_BUFFER_SIZE
            try:
                bs = os.fstat(raw.fileno()).st_blksize
                if bs > 1:
                    buffering = bs
            except (OSError, AttributeError):
                pass
        if buffering == 0:
            if binary:
                return result
            raise ValueError("can't have unbuffered text I/O")
        if "+" in rawmode:
            buf = io.BufferedRandom(raw, buffering)
        elif any(c in rawmode for c in "wax"):
            buf = io.BufferedWriter(raw, buffering)
        else:
            buf = io.BufferedReader(raw, buffering)
        result = buf
        if binary:
            return result
        text = io.TextIOWrapper(buf, encoding, errors, newline, line_buffering)
        result = text
        text.mode = mode
        return result
    except BaseException:
        result.close()
        raise


# ----------------------------------------------------------------------------- flock


def _flock(fd, operation):
    w = cur()
    if w is None:
        return REAL["flock"](fd, operation)
    if hasattr(fd, "fileno"):
        fd = fd.fileno()
    f = next((x for x in STATE.files if not x.closed and x._hs_fd == fd), None)
    rel = canon(f._hs_rel) if f is not None else "fd"
    if operation & fcntl.LOCK_UN:
        w.real = ()
        w.point(("lock", "flock-un", rel))
        STATE.flocks.pop(fd, None)
        return REAL["flock"](fd, operation)
    try:
        ino = os.fstat(fd).st_ino
    except OSError:
        ino = None

    def free():
        return not any(i == ino and h != fd for h, (i, _) in STATE.flocks.items())

    op = ("lock", "flock", rel)
    w.real = (f._hs_real(),) if f is not None else ()
    if operation & fcntl.LOCK_NB:
        w.point(("lock", "flock-nb", rel))
        if not free():
            w.obs(op, "err", _errno.EWOULDBLOCK)
            raise BlockingIOError(_errno.EWOULDBLOCK, "Resource temporarily unavailable")
    else:
        w.point(op, pred=free)
    try:
        REAL["flock"](fd, operation | fcntl.LOCK_NB)
    except OSError as e:
        w.obs(op, "err", e.errno)
        raise
    STATE.flocks[fd] = (ino, w.name)
    w.obs(op, "ok")


# ----------------------------------------------------------------------------- time


VIRTUAL_EPOCH = 1_700_000_000.0


def advance_clock(seconds):
    """Virtual time of an execution: it only moves when a controlled thread sleeps or a wait reaches its deadline."""
    try:
        STATE.vclock += max(0.0, float(seconds))
    except (TypeError, ValueError):
        pass


def _sleep(seconds):
    """time.sleep on a controlled thread: no real time passes for the explorers; the sleeper simply lets others run."""
    w = cur()
    if w is None or w.abort:
        return REAL["time.sleep"](seconds)
    w.real = ()
    w.point(("lock", "sleep", "-"))
    advance_clock(seconds)


def _mk_clock(name, scale):
    def clock():
        if cur() is None:
            return REAL["time." + name]()
        v = VIRTUAL_EPOCH + STATE.vclock if name.startswith("time") else 1000.0 + STATE.vclock
        return int(v * scale) if scale != 1 else v
    clock.__name__ = name
    return clock


_CLOCKS = (("time", 1), ("monotonic", 1), ("perf_counter", 1), ("time_ns", 10 ** 9), ("monotonic_ns", 10 ** 9),
           ("perf_counter_ns", 10 ** 9))


# ----------------------------------------------------------------------------- temp names


class NameSeq:
    def __iter__(self):
        return self

    def __next__(self):
        w = cur()
        if w is None:
            return "main%06d" % next(STATE.mainctr)
        w.tmpn += 1
        return "%s_%04d" % (w.name, w.tmpn)


# ----------------------------------------------------------------------------- lock shims


class SLock:
    """Cooperative, non-reentrant lock.  Acquire is a scheduling point with an enabledness
    predicate; an uncontrolled thread (the harness itself) just takes it."""

    def __init__(self, *a, **k):
        self.owner = None
        STATE.shims.append(self)

    def acquire(self, blocking=True, timeout=-1):
        w = cur()
        if w is None:
            if self.owner is not None:
                raise RuntimeError("shim lock held by %r acquired from an uncontrolled thread" % (self.owner,))
            self.owner = "main"
            return True
        if w.abort:
            return True
        if not blocking:
            w.point(("lock", "try-acquire", self._id()))
            if self.owner is not None:
                return False
            self.owner = w.name
            return True
        if timeout is not None and timeout >= 0:
            # acquire with a timeout: the deadline may pass at any moment - whenever the scheduler runs this thread
            # while the lock is still held, the call times out
            w.point(("lock", "acquire-timeout", self._id()))
            if self.owner is not None:
                advance_clock(timeout)
                return False
            self.owner = w.name
            return True
        w.point(("lock", "acquire", self._id()), pred=lambda: self.owner is None)
        if self.owner is not None:
            raise RuntimeError("scheduler released a thread into a held lock")
        self.owner = w.name
        return True

    def release(self):
        if self.owner is None:
            w = cur()
            if w is not None and w.abort:
                return
            raise RuntimeError("release unlocked lock")
        self.owner = None

    def locked(self):
        return self.owner is not None

    def __enter__(self):
        self.acquire()
        return True

    def __exit__(self, *a):
        self.release()

    def _id(self):
        try:
            return STATE.shims.index(self)
        except ValueError:
            return -1

    def key(self):
        return ("L", self.owner)


class SCond:
    """Cooperative condition variable.  fifo=True: notify wakes the oldest waiters (what
    threading.Condition does); fifo=False: any process sleeping at notify time may be the one
    woken (multiprocessing.Condition) - the choice is then explored by the scheduler."""
    fifo = True

    def __init__(self, lock=None):
        self.lock = lock if lock is not None else SLock()
        self.waiters = []  # names, oldest first
        self.tokens = []  # list of frozenset(eligible waiter names), oldest first
        STATE.shims.append(self)

    def acquire(self, *a, **k):
        return self.lock.acquire(*a, **k)

    def release(self):
        self.lock.release()

    def __enter__(self):
        return self.lock.__enter__()

    def __exit__(self, *a):
        return self.lock.__exit__(*a)

    def _token_for(self, name):
        for t in self.tokens:
            if name in t:
                return t
        return None

    def wait(self, timeout=None):
        w = cur()
        if w is None:
            raise RuntimeError("Condition.wait from an uncontrolled thread")
        if w.abort:
            raise w.AbortExc()
        if self.lock.owner != w.name:
            raise RuntimeError("cannot wait on un-acquired lock")
        self.lock.owner = None
        self.waiters.append(w.name)
        if timeout is not None:
            # wait with a timeout: the deadline may pass at any moment, so the thread is runnable as soon as the lock is
            # free; if no notification is there for it by then, the wait has timed out
            w.point(("lock", "wait-timeout", self.lock._id()), pred=lambda: self.lock.owner is None)
            t = self._token_for(w.name)
            if t is not None:
                self.tokens.remove(t)
            else:
                advance_clock(timeout)  # the deadline was reached
            self.waiters.remove(w.name)
            self.lock.owner = w.name
            return t is not None
        w.point(("lock", "wait", self.lock._id()),
                pred=lambda: self._token_for(w.name) is not None and self.lock.owner is None)
        self.tokens.remove(self._token_for(w.name))
        self.waiters.remove(w.name)
        self.lock.owner = w.name
        return True

    def wait_for(self, predicate, timeout=None):
        r = predicate()
        while not r:
            woke = self.wait(timeout)
            r = predicate()
            if timeout is not None and not woke:
                break  # deadline passed: threading.Condition.wait_for returns the predicate's value then
        return r

    def notify(self, n=1):
        w = cur()
        if w is not None and w.abort:
            return
        if self.lock.owner != (w.name if w is not None else "main"):
            raise RuntimeError("cannot notify on un-acquired lock")
        covered = set()
        for t in self.tokens:
            covered |= set(t)
        pending = [x for x in self.waiters]
        free = max(0, len(pending) - len(self.tokens))
        for i in range(min(n, free)):
            if self.fifo:
                # oldest waiter that no earlier token is reserved for
                reserved = {next(iter(t)) for t in self.tokens}
                cand = [x for x in pending if x not in reserved]
                if not cand:
                    break
                self.tokens.append(frozenset([cand[0]]))
            else:
                self.tokens.append(frozenset(pending))

    def notify_all(self):
        self.notify(len(self.waiters))

    def key(self):
        return ("C", tuple(self.waiters), tuple(tuple(sorted(t)) for t in self.tokens))


class SCondMP(SCond):
    fifo = False


class SList(list):
    """Shared 'locked identifiers' list.  With multiprocessing every operation on the managed list is an IPC round
    trip, with threading a thread switch can fall between two bytecodes: an access made while the calling thread
    holds NO lock is therefore a scheduling point of its own (correctly synchronised code never gets one)."""

    def _hs_access(self, what):
        w = cur()
        if w is None or w.abort:
            return
        if any(isinstance(sh, SLock) and sh.owner == w.name for sh in STATE.shims):
            return
        try:
            idx = STATE.slists.index(id(self))
        except ValueError:
            STATE.slists.append(id(self))
            idx = len(STATE.slists) - 1
        w.point(("lock", "unsynchronised-list-" + what, "S%d" % idx))

    def __contains__(self, x):
        self._hs_access("read")
        return list.__contains__(self, x)

    def append(self, x):
        self._hs_access("write")
        return list.append(self, x)

    def remove(self, x):
        self._hs_access("write")
        return list.remove(self, x)

    def __reduce__(self):
        return (list, (list(self),))


class SProxyList:
    """What multiprocessing.Manager().list() hands out: a PROXY, not a list.  It exposes exactly the methods of
    multiprocessing.managers.ListProxy, each of which is one IPC round trip that the manager process serves atomically;
    there is no __iter__ (iterating, `list(proxy)`, `x in list(proxy)` fall back to __len__ + __getitem__(0), (1), ... -
    one round trip each, so another process can change the list in between), `remove` of a missing value raises, and
    `+=` replaces nothing locally.  A round trip made while the calling process holds no lock is a scheduling point."""

    def __init__(self, *a):
        self._l = list(*a)

    _hs_access = SList._hs_access

    def _rt(self, what):
        self._hs_access(what)

    def __len__(self):
        self._rt("read")
        return len(self._l)

    def __getitem__(self, i):
        self._rt("read")
        return self._l[i]

    def __setitem__(self, i, v):
        self._rt("write")
        self._l[i] = v

    def __delitem__(self, i):
        self._rt("write")
        del self._l[i]

    def __contains__(self, x):
        self._rt("read")
        return x in self._l

    def __add__(self, o):
        self._rt("read")
        return self._l + list(o)

    def __mul__(self, n):
        self._rt("read")
        return self._l * n

    __rmul__ = __mul__

    def __reversed__(self):
        self._rt("read")
        return reversed(list(self._l))

    def __iadd__(self, o):
        self._rt("write")
        self._l.extend(o)
        return self

    def __imul__(self, n):
        self._rt("write")
        self._l *= n
        return self

    def append(self, x):
        self._rt("write")
        self._l.append(x)

    def extend(self, xs):
        self._rt("write")
        self._l.extend(xs)

    def insert(self, i, x):
        self._rt("write")
        self._l.insert(i, x)

    def pop(self, *a):
        self._rt("write")
        return self._l.pop(*a)

    def remove(self, x):
        self._rt("write")
        self._l.remove(x)

    def reverse(self):
        self._rt("write")
        self._l.reverse()

    def sort(self, *a, **k):
        self._rt("write")
        self._l.sort(*a, **k)

    def count(self, x):
        self._rt("read")
        return self._l.count(x)

    def index(self, *a):
        self._rt("read")
        return self._l.index(*a)

    def __repr__(self):
        return repr(self._l)

    __str__ = __repr__

    def __reduce__(self):
        return (list, (list(self._l),))


class _Manager:
    def list(self, *a):
        return SProxyList(*a)

    def dict(self, *a, **k):
        return dict(*a, **k)

    def Lock(self):
        return SLock()


def _thread_ns():
    ns = types.SimpleNamespace()
    for n in dir(threading):
        if not n.startswith("__"):
            setattr(ns, n, getattr(threading, n))
    ns.Lock = SLock
    ns.RLock = SLock
    ns.Condition = SCond
    return ns


def _mp_ns():
    import multiprocessing
    ns = types.SimpleNamespace()
    for n in dir(multiprocessing):
        if not n.startswith("__"):
            try:
                setattr(ns, n, getattr(multiprocessing, n))
            except Exception:  # noqa: BLE001
                pass
    ns.Lock = SLock
    ns.RLock = SLock
    ns.Condition = SCondMP
    ns.Manager = _Manager
    return ns


def _yaml_ns(yaml):
    """yaml.safe_load memoised on the document text (a pure function of it); saves ~2 ms per
    store construction in explorers that build a fresh FileHashStore per execution."""
    import copy
    memo = {}
    ns = types.SimpleNamespace()
    for n in dir(yaml):
        if not n.startswith("__"):
            setattr(ns, n, getattr(yaml, n))

    def safe_load(stream):
        text = stream.read() if hasattr(stream, "read") else stream
        if text not in memo:
            memo[text] = yaml.safe_load(text)
        return copy.deepcopy(memo[text])

    ns.safe_load = safe_load
    return ns


# ----------------------------------------------------------------------------- install

_OS_HOOKS = [("stat", 1), ("lstat", 1), ("listdir", 1), ("scandir", 1), ("mkdir", 1), ("rmdir", 1), ("remove", 1),
             ("unlink", 1), ("rename", 2), ("replace", 2), ("link", 2), ("symlink", 2), ("chmod", 1), ("truncate", 1),
             ("utime", 1)]


def install(locks=True):
    if STATE.installed:
        return
    import hashstore.filehashstore as fhs
    for n, _ in _OS_HOOKS:
        REAL["os." + n] = getattr(os, n)
    REAL["os.open"] = os.open
    REAL["os.sendfile"] = os.sendfile
    REAL["open"] = builtins.open
    REAL["io.open"] = io.open
    REAL["flock"] = fcntl.flock
    REAL["nameseq"] = tempfile._name_sequence
    import time as _time
    REAL["time.sleep"] = _time.sleep
    _time.sleep = _sleep
    for n, scale in _CLOCKS:
        REAL["time." + n] = getattr(_time, n)
        setattr(_time, n, _mk_clock(n, scale))
    REAL["fhs.threading"] = fhs.threading
    REAL["fhs.multiprocessing"] = fhs.multiprocessing
    REAL["fhs.atexit"] = fhs.atexit
    for n, k in _OS_HOOKS:
        setattr(os, n, _mk_hook(n, k))
    os.open = _os_open
    os.sendfile = _os_sendfile
    for n in ("fsync", "fdatasync"):
        REAL["os." + n] = getattr(os, n)
        setattr(os, n, _mk_fsync(n))
    builtins.open = _open
    io.open = _open
    fcntl.flock = _flock
    tempfile._name_sequence = NameSeq()
    if locks:
        fhs.threading = _thread_ns()
        fhs.multiprocessing = _mp_ns()
    fhs.atexit = types.SimpleNamespace(register=lambda f, *a, **k: f)
    REAL["fhs.yaml"] = fhs.yaml
    fhs.yaml = _yaml_ns(fhs.yaml)
    if not STATE.audit:
        import sys
        sys.addaudithook(_audit)
        STATE.audit = True
        prev_hook = sys.unraisablehook

        def _unraisable(u):
            # a file object closed by the garbage collector (a NamedTemporaryFile the package never closes itself) can be hit
            # by an injected close() error: the interpreter ignores an exception raised in a finalizer - and so does the
            # harness, silently
            if isinstance(u.exc_value, OSError) and "(injected" in str(u.exc_value):
                return
            prev_hook(u)
        sys.unraisablehook = _unraisable
    STATE.installed = True


def uninstall():
    if not STATE.installed:
        return
    import hashstore.filehashstore as fhs
    for n, _ in _OS_HOOKS:
        setattr(os, n, REAL["os." + n])
    os.open = REAL["os.open"]
    os.sendfile = REAL["os.sendfile"]
    for n in ("fsync", "fdatasync"):
        setattr(os, n, REAL["os." + n])
    builtins.open = REAL["open"]
    io.open = REAL["io.open"]
    fcntl.flock = REAL["flock"]
    tempfile._name_sequence = REAL["nameseq"]
    import time as _time
    _time.sleep = REAL["time.sleep"]
    for n, _ in _CLOCKS:
        setattr(_time, n, REAL["time." + n])
    fhs.threading = REAL["fhs.threading"]
    fhs.multiprocessing = REAL["fhs.multiprocessing"]
    fhs.atexit = REAL["fhs.atexit"]
    fhs.yaml = REAL["fhs.yaml"]
    STATE.installed = False


def real_open(*a, **k):
    return (REAL.get("open") or builtins.open)(*a, **k)


def real_snapshot(root):
    """common.snapshot using the un-hooked primitives (the harness itself is never controlled, but
    this keeps the intent explicit)."""
    from .common import snapshot
    return snapshot(root, opener=real_open)


class BaseWorker:
    """Minimal worker: records nothing, never parks.  Engines subclass."""
    name = "T0"
    abort = False
    real = ()
    AbortExc = SystemExit

    def __init__(self, name="T0"):
        self.name = name
        self.tmpn = 0

    def point(self, op, pred=None):
        if pred is not None and not pred():
            raise RuntimeError("blocked with a single controlled thread: %r" % (op,))

    def private(self, op):
        pass

    def obs(self, *x):
        pass

    def adjust_write(self, op, nbytes):
        """Number of bytes the next raw write(2) may transfer (environment answer: short write)."""
        return nbytes
