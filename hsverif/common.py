"""Shared plumbing: scratch space, content alphabet, tree snapshots, evidence, findings, reporting."""
import atexit
import hashlib
import json
import os
import shutil
import sys
import time

VERIF = os.path.dirname(os.path.dirname(os.path.abspath(__file__)))
REPO = os.environ.get("HSVERIF_REPO", "/repo")
# evidence and replay files describe runs against /repo itself; a run against another tree (HSVERIF_REPO: a seeded change,
# a refactoring) writes them to a side directory so that it can never overwrite the evidence of the real tree
OUT = VERIF if os.path.realpath(REPO) == "/repo" else os.path.join(
    os.environ.get("HSVERIF_OUT", "/var/tmp/hsverif-other-trees"), os.path.basename(os.path.normpath(REPO)))
if os.path.join(REPO, "src") not in sys.path:
    sys.path.insert(0, os.path.join(REPO, "src"))

import logging  # noqa: E402

logging.disable(logging.CRITICAL)

DEFAULT_ALGOS = ["md5", "sha1", "sha256", "sha384", "sha512"]
OTHER_ALGOS = ["sha224", "sha3_224", "sha3_256", "sha3_384", "sha3_512", "blake2b", "blake2s"]
ALL_ALGOS = DEFAULT_ALGOS + OTHER_ALGOS
STORE_ALGOS = {"MD5": "md5", "SHA-1": "sha1", "SHA-256": "sha256", "SHA-384": "sha384", "SHA-512": "sha512"}
DEFAULT_NS = "https://ns.dataone.org/service/types/v2.0#SystemMetadata"

SEED = int(os.environ.get("VERIF_SEED", "0") or 0)

# ----------------------------------------------------------------------------- scratch

_SCRATCH = None


def _sweep(base):
    """Remove scratch directories of check processes that no longer exist (killed runs)."""
    try:
        names = os.listdir(base)
    except OSError:
        return
    for n in names:
        if n.startswith("hsverif.") and n[8:].isdigit() and not os.path.exists("/proc/%s" % n[8:]):
            shutil.rmtree(os.path.join(base, n), ignore_errors=True)


def scratch():
    """Per-process scratch directory (tmpfs when available).  The first process of a check owns the top directory
    and removes it at exit; pool workers (which leave through os._exit and run no exit handlers) get a
    sub-directory of it."""
    global _SCRATCH
    if _SCRATCH is None or _SCRATCH[0] != os.getpid():
        top = os.environ.get("HSVERIF_SCRATCH_TOP")
        if top and os.path.isdir(top) and os.environ.get("HSVERIF_SCRATCH_OWNER") != str(os.getpid()):
            d = os.path.join(top, "w%d" % os.getpid())
            shutil.rmtree(d, ignore_errors=True)
            os.makedirs(d)
            _SCRATCH = (os.getpid(), d)
            return d
        base = "/dev/shm" if os.path.isdir("/dev/shm") and os.access("/dev/shm", os.W_OK) else (
            os.environ.get("TMPDIR") or "/var/tmp")
        _sweep(base)
        d = os.path.join(base, "hsverif.%d" % os.getpid())
        shutil.rmtree(d, ignore_errors=True)
        os.makedirs(d)
        _SCRATCH = (os.getpid(), d)
        os.environ["HSVERIF_SCRATCH_TOP"] = d
        os.environ["HSVERIF_SCRATCH_OWNER"] = str(os.getpid())
        atexit.register(_cleanup, os.getpid(), d)
    return _SCRATCH[1]


def _cleanup(pid, d):
    if os.getpid() == pid:
        shutil.rmtree(d, ignore_errors=True)


# ----------------------------------------------------------------------------- contents


def pattern(n, salt=0):
    """Position dependent byte pattern: truncation, duplication or reordering changes the digest."""
    return bytes(((i * 131 + (i >> 8) * 31 + salt * 17 + 7) % 251) for i in range(n))


def digests(data, algos=ALL_ALGOS):
    return {a: hashlib.new(a, data).hexdigest() for a in algos}


class Inputs:
    """Named byte contents materialised as files in the scratch directory."""

    def __init__(self, contents, sub="inputs"):
        self.dir = os.path.join(scratch(), sub)
        os.makedirs(self.dir, exist_ok=True)
        self.data = dict(contents)
        for k, v in self.data.items():
            with open(self.path(k), "wb") as f:
                f.write(v)

    def path(self, k):
        return os.path.join(self.dir, "in_%s.bin" % k)

    def cid(self, k, algo="sha256"):
        return hashlib.new(algo, self.data[k]).hexdigest()


def props(path, depth=3, width=2, algo="SHA-256", ns=DEFAULT_NS):
    return {
        "store_path": path,
        "store_depth": depth,
        "store_width": width,
        "store_algorithm": algo,
        "store_metadata_namespace": ns,
    }


# ----------------------------------------------------------------------------- trees


def snapshot(root, opener=open):
    """{relative path: bytes} for files and {relative path + '/': None} for empty directories."""
    t = {}
    for d, ds, fs in os.walk(root):
        for f in fs:
            p = os.path.join(d, f)
            with opener(p, "rb") as g:
                t[os.path.relpath(p, root)] = g.read()
        if not ds and not fs and d != root:
            t[os.path.relpath(d, root) + "/"] = None
    return t


def restore(root, tree):
    shutil.rmtree(root, ignore_errors=True)
    os.makedirs(root)
    for r, c in tree.items():
        p = os.path.join(root, r)
        if c is None:
            os.makedirs(p, exist_ok=True)
            continue
        os.makedirs(os.path.dirname(p), exist_ok=True)
        with open(p, "wb") as f:
            f.write(c)


def tree_key(tree, dirs=True):
    h = hashlib.blake2b(digest_size=16)
    for r in sorted(tree):
        c = tree[r]
        if c is None:
            if dirs:
                h.update(b"D" + r.encode("utf-8", "surrogateescape") + b"\0")
        else:
            h.update(b"F" + r.encode("utf-8", "surrogateescape") + b"\0" + hashlib.blake2b(c, digest_size=16).digest())
    return h.hexdigest()


def tree_diff(a, b):
    out = []
    for r in sorted(set(a) | set(b)):
        if r not in a:
            out.append("+ " + r)
        elif r not in b:
            out.append("- " + r)
        elif a[r] != b[r]:
            out.append("~ " + r)
    return out


# ----------------------------------------------------------------------------- findings


def load_findings():
    p = os.path.join(VERIF, "known_findings.json")
    if not os.path.exists(p):
        return {"known": [], "fixed": []}
    with open(p) as f:
        return json.load(f)


# ----------------------------------------------------------------------------- reporting


def jsonable(x):
    if isinstance(x, (str, int, float, bool)) or x is None:
        return x
    if isinstance(x, bytes):
        if len(x) <= 24:
            return "b:" + x.hex()
        return "b:%d:%s" % (len(x), hashlib.sha256(x).hexdigest()[:12])
    if isinstance(x, dict):
        return {str(k): jsonable(v) for k, v in x.items()}
    if isinstance(x, (list, tuple, set, frozenset)):
        return [jsonable(v) for v in (sorted(x, key=repr) if isinstance(x, (set, frozenset)) else x)]
    return repr(x)


class Report:
    """Collects violations / known findings of one check run, writes evidence and replay files."""

    def __init__(self, prop, tier, level):
        self.prop = prop
        self.tier = tier
        self.level = level
        self.t0 = time.time()
        self.violations = []  # (signature, replay dict)
        self.known_hits = {}  # finding id -> count
        self.coverage = {}
        self.assumptions = []
        self.notes = []
        self.findings = [f for f in load_findings().get("known", []) if f.get("property") == prop]
        shutil.rmtree(os.path.join(OUT, "replays", prop), ignore_errors=True)  # replay files of earlier runs
        self._seen_sigs = set()
        self.sig_counts = {}

    # signature: a stable, JSON-able identification of *what* fails
    def violation(self, signature, replay):
        """Record a violation; a violation whose signature matches a listed known finding is
        reported as KNOWN-FINDING instead. Returns True when it is a new (unlisted) violation."""
        sig = json.dumps(jsonable(signature), sort_keys=True)
        for f in self.findings:
            if finding_matches(f, jsonable(signature)):
                self.known_hits[f["id"]] = self.known_hits.get(f["id"], 0) + 1
                return False
        self.sig_counts[sig] = self.sig_counts.get(sig, 0) + 1
        if sig in self._seen_sigs:
            hl = lambda r: len(r.get("history") or []) if isinstance(r, dict) else 0
            for i, (s0, r0) in enumerate(self.violations):
                if json.dumps(s0, sort_keys=True) == sig and isinstance(replay, dict) and hl(jsonable(replay)) < hl(r0):
                    self.violations[i] = (s0, jsonable(replay))
            return True
        self._seen_sigs.add(sig)
        self.violations.append((jsonable(signature), jsonable(replay)))
        return True

    def finish(self, samples=None):
        wall = time.time() - self.t0
        cov = dict(self.coverage)
        if samples is not None:
            cov["samples"] = jsonable(samples)[:8]
        if self.notes:
            cov["notes"] = self.notes[:50]
        if self.known_hits:
            cov["known_findings_reproduced"] = self.known_hits
        ev = {
            "property_id": self.prop,
            "tier": self.tier,
            "seed": SEED,
            "level": self.level,
            "coverage": cov,
            "assumptions": self.assumptions,
            "wall_s": round(wall, 3),
            "violations": len(self.violations),
        }
        os.makedirs(os.path.join(OUT, "evidence"), exist_ok=True)
        with open(os.path.join(OUT, "evidence", self.prop + ".json"), "w") as f:
            json.dump(ev, f, indent=1, sort_keys=True)
            f.write("\n")
        for f in self.findings:
            if f["id"] in self.known_hits:
                print("KNOWN-FINDING: property=%s %s: %s (reproduced %d times)" % (
                    self.prop, f["id"], f["what"], self.known_hits[f["id"]]))
            else:
                self_note = "known finding %s not reproduced by this run (tier %s)" % (f["id"], self.tier)
                print("note: " + self_note)
        rc = 0
        if self.violations:
            rdir = os.path.join(OUT, "replays", self.prop)
            os.makedirs(rdir, exist_ok=True)
            for sig, rep in self.violations[:400]:
                name = hashlib.sha256(json.dumps(sig, sort_keys=True).encode()).hexdigest()[:12] + ".json"
                path = os.path.join(rdir, name)
                with open(path, "w") as f:
                    json.dump({"property": self.prop, "signature": sig, "replay": rep}, f, indent=1, sort_keys=True)
                    f.write("\n")
                print("VIOLATION property=%s replay=%s" % (self.prop, path))
                print("   what: %s (x%d)" % (json.dumps(sig, sort_keys=True)[:600],
                                             self.sig_counts.get(json.dumps(sig, sort_keys=True), 1)))
            if len(self.violations) > 400:
                print("   ... and %d further distinct violations" % (len(self.violations) - 400))
            rc = 1
        summary = {k: v for k, v in cov.items() if isinstance(v, (int, float, bool, str)) and k != "rule"}
        print("%s %s: %s violations=%d wall=%.1fs" % (self.prop, self.tier, json.dumps(summary, sort_keys=True),
                                                      len(self.violations), wall))
        return rc


def finding_matches(finding, sig):
    """A finding lists `match`: a dict; every key must be present in the signature with an equal value
    (the signature may carry further keys). Values that are lists in the finding mean 'one of'."""
    for inst in finding.get("instances", ()):
        # an instance lists the keys that identify it; the observed signature may carry further keys
        if isinstance(inst, dict) and isinstance(sig, dict) and all(k in sig and sig[k] == v for k, v in inst.items()):
            return True
    m = finding.get("match")
    if not isinstance(m, dict) or not isinstance(sig, dict):
        return False
    for k, v in m.items():
        if k not in sig:
            return False
        if isinstance(v, dict) and "one_of" in v:
            if sig[k] not in v["one_of"]:
                return False
        elif sig[k] != v:
            return False
    return True


class HarnessError(Exception):
    pass


class SetupFailure(HarnessError):
    """A preparatory call on the code under test (warm-up / initial history) did not succeed."""


# the package's pristine module-level / class-level state is recorded now, before any store exists (gstate.py)
def _capture_pristine_package_state():
    try:
        import hashstore.filehashstore  # noqa: F401
        import hashstore.hashstoreclient  # noqa: F401
    except Exception:  # noqa: BLE001 - a tree that does not import is reported by the check that drives it
        return
    from . import gstate
    gstate.capture()


_capture_pristine_package_state()
