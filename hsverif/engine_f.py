"""Engine F: crash points and fault injection for a single API call on the real FileHashStore.

One recording run of the call (a single controlled thread) yields its trace of file-system
operations `site 0 .. n-1`.  Crash: the kernel-visible tree is captured before every site and after
the last (unflushed user-space buffers are by construction not in it); each distinct capture is
later re-opened by a fresh instance.  Fault: the call is re-run from the same initial tree with an
OSError raised at one site instead of performing the operation - one-off, or persisting for that
destination path until the call returns.
"""
import errno as _errno
import os

from . import common, env, ops as O
from .common import HarnessError, restore
from .engine_t import IncTree
from .specs import make_store, locked_lists

FAULT_KINDS = {"create", "open-w", "open-r", "rename", "remove", "mkdir", "write", "chmod"}
ERRNOS = {"EIO": _errno.EIO, "ENOSPC": _errno.ENOSPC, "EACCES": _errno.EACCES}


def is_fault_site(op):
    # (listing a directory is a READ of it, not an existence probe: its failure is reported to the caller)
    return op[0] in FAULT_KINDS or (op[0] == "lock" and op[1] == "flock") or (
        op[0] == "probe" and op[1] in ("listdir", "scandir"))


def site_class(sop):
    """kind:name:path-class of a trace operation (stable under insertion of unrelated operations)."""
    def pc(x):
        parts = str(x).split("/")
        return "/".join(parts[:2]) if parts[0] == "refs" or (len(parts) > 1 and parts[1] == "tmp") else parts[0]
    return ":".join([sop[0], sop[1]] + [pc(x) + ("_delete" if str(x).endswith("_delete") else "") for x in sop[2:]])


class ClassFault:
    """One injected OSError identified by (operation class, occurrence) within one thread's operations."""

    def __init__(self, spec):
        self.spec = tuple(spec) if spec else None
        self.counts = {}
        self.persist = set()
        self.fired = 0

    def check(self, op, real):
        if self.spec is None or not is_fault_site(op):
            return
        k = site_class(op)
        n = self.counts.get(k, 0)
        self.counts[k] = n + 1
        dest = real[-1] if real else None
        e = ERRNOS[self.spec[2]]
        if k == self.spec[0] and n == self.spec[1]:
            self.fired += 1
            if len(self.spec) > 3 and self.spec[3] and dest is not None:
                self.persist.add(dest)
            raise OSError(e, os.strerror(e) + " (injected)")
        if dest is not None and dest in self.persist and not (self.spec[2] == "ENOSPC" and op[0] == "remove"):
            # (a full file system keeps failing creations and writes, but files can still be removed)
            self.fired += 1
            raise OSError(e, os.strerror(e) + " (injected, persistent)")


class SeqFaultWorker(env.BaseWorker):
    """Single controlled thread whose only job is to inject a ClassFault (sequential reference runs)."""

    def __init__(self, spec):
        super().__init__("T1")
        self.cf = ClassFault(spec)

    def point(self, op, pred=None):
        if pred is not None and not pred():
            raise HarnessError("operation %r blocks in a sequential run" % (op,))
        self.cf.check(op, self.real)

    def private(self, op):
        self.cf.check(op, self.real)


class FWorker(env.BaseWorker):
    def __init__(self, root, snapshots=False, fault=None):
        super().__init__("T1")
        self.root = root
        self.sites = []
        self.fault = fault  # (site index, errno, persistent) or None
        self.persist = {}  # real relative path -> errno
        self.snapshots = [] if snapshots else None
        self.inc = IncTree(root) if snapshots else None
        self.injected = 0
        self.real = ()
        self.cur_site = -1

    def _site(self, op, pred=None):
        if pred is not None and not pred():
            raise HarnessError("operation %r blocks with a single controlled thread" % (op,))
        i = len(self.sites)
        self.sites.append(op)
        if self.snapshots is not None:
            if env.STATE.dirty:
                dirty, env.STATE.dirty = env.STATE.dirty, set()
                self.inc.refresh(dirty)
            self.snapshots.append((i, dict(self.inc.files), set(self.inc.dirs)))
        self.cur_site = i
        if self.fault is not None and self.fault[1] == "SHORT":
            return
        if is_fault_site(op) or (self.fault is not None and len(self.fault) > 3 and self.fault[3] == "any"
                                 and self.fault[0] == i):
            # ("any": the caller asks for a fault at exactly this operation although its kind - a read - is not in the
            # default fault-site set)
            dest = self.real[-1] if self.real else None
            if self.fault is not None and self.fault[0] == i:
                self.injected += 1
                if self.fault[2] and dest is not None:
                    self.persist[dest] = self.fault[1]
                raise OSError(self.fault[1], os.strerror(self.fault[1]) + " (injected)", dest)
            if dest is not None and dest in self.persist and not (
                    self.persist[dest] == _errno.ENOSPC and op[0] == "remove"):
                self.injected += 1
                raise OSError(self.persist[dest], os.strerror(self.persist[dest]) + " (injected, persistent)", dest)

    def adjust_write(self, op, nbytes):
        if self.fault is not None and self.fault[1] == "SHORT" and self.fault[0] == self.cur_site and nbytes > 1:
            self.injected += 1
            return max(1, nbytes // 2)
        return nbytes

    def point(self, op, pred=None):
        self._site(op, pred)

    def private(self, op):
        self._site(op)

    def final_snapshot(self):
        if self.snapshots is not None:
            dirty, env.STATE.dirty = env.STATE.dirty, set()
            self.inc.refresh(dirty)
            self.snapshots.append((len(self.sites), dict(self.inc.files), set(self.inc.dirs)))


class CallRun:
    pass


def run_call(root, init_tree, p, op, ctx, fault=None, snapshots=False, mode="th"):
    """Run one API call from `init_tree` under the recorder / injector."""
    env.install()
    env.reset_execution()
    restore(root, init_tree)
    env.set_root(root)
    store = make_store(root, p, {"USE_MULTIPROCESSING": "True" if mode == "mp" else "False"})
    w = FWorker(root, snapshots, fault)
    env.STATE.dirty = set()
    env.CUR.w = w
    try:
        out = O.run(store, op, ctx)
    finally:
        env.CUR.w = None
    w.final_snapshot()
    r = CallRun()
    r.outcome = out
    r.sites = w.sites
    r.snapshots = w.snapshots
    r.store = store
    r.injected = w.injected
    r.locked = locked_lists(store)
    r.shim_held = [i for i, sh in enumerate(env.STATE.shims) if isinstance(sh, env.SLock) and sh.owner is not None]
    return r


def tree_of(files, dirs):
    t = dict(files)
    for d in dirs:
        if not any(k.startswith(d + "/") for k in files) and not any(x.startswith(d + "/") for x in dirs):
            t[d + "/"] = None
    return t
