"""Engine L: iterative context bounding at SOURCE-LINE (or bytecode) granularity, pre-emption bound 1.

Engine T places scheduling points at file-system calls and lock operations and explores all their interleavings; what
happens between two such points is one step.  That is exact for state kept in files and behind the package's locks,
but a thread switch of the real interpreter can fall between any two bytecodes, so state kept in memory and touched
without a lock (a buffer cached on the instance, a dictionary filled lazily, a counter) is below engine T's
granularity.  Engine L closes that gap for the smallest deviation count:

  for each of the two threads as the one that runs first, for n = 1 .. N:
      run the first thread until its n-th event, pre-empt it there, run the other thread until it finishes or
      blocks, then let the first thread continue; switches after that happen only when a thread finishes or blocks

where an event is a `line` (or `opcode`) trace event of a frame whose code lives in the package's source directory,
or a visible operation of the interposition layer (so the bound-1 executions of engine T are a subset).  N is the
number of events of the first thread when it runs alone - up to its pre-emption point the first thread's execution
is that solo run, so the enumeration is complete: EVERY execution of the two calls with at most one pre-emption, at
every source line (bytecode) of the package, is explored.  Terminal observations are judged by the same
linearizability oracle as engine T's.
"""
import sys
import threading
import time

from . import common, env, ops as O
from .common import HarnessError, restore
from .engine_t import Execution, _valkey, WATCHDOG_S, is_yield

MAX_YIELDS = 2000
from .specs import make_store

SRC = common.REPO + "/src/"


class Abort(BaseException):
    pass


class LWorker(env.BaseWorker):
    AbortExc = Abort

    def __init__(self, sched, name, program, gran):
        super().__init__(name)
        self.s = sched
        self.program = program
        self.gran = gran
        self.sem = threading.Semaphore(0)
        self.done = False
        self.abort = False
        self.started = False
        self.results = []
        self.events = 0
        self.yields = 0
        self.preempt_at = None
        self.preempt_more = ()  # further pre-emptions of this thread (own event numbers), bound 2
        self.cands = []  # probe: own events after the first pre-emption at which a pre-emption would not be void
        self.pred = None  # predicate this thread is blocked on while parked (None: parked by pre-emption / not started)
        self.where = None
        self.th = threading.Thread(target=self._run, daemon=True, name="hsverif-" + name)

    # -- tracing -------------------------------------------------------------------------------
    def _global_trace(self, frame, event, arg):
        if event == "call" and frame.f_code.co_filename.startswith(SRC):
            if self.gran == "opcode":
                frame.f_trace_opcodes = True
                frame.f_trace_lines = False
            return self._local_trace
        return None

    def _local_trace(self, frame, event, arg):
        if event == self.gran and not self.abort:
            self._event(("L", frame.f_code.co_name, frame.f_lineno))
        return self._local_trace

    def _event(self, where):
        self.events += 1
        if self.events == self.preempt_at:
            self.where = where
            self.s.preempted = (self.name, self.events, where)
            self.s.switch(self, None)
        elif self.events in self.preempt_more:
            self.s.preempted2 = (self.name, self.events, where)
            self.s.switch(self, None)
        elif self.s.probe and self.s.preempted is not None and self.s._eligible(self):
            self.cands.append(self.events)

    # -- thread body ---------------------------------------------------------------------------
    def _run(self):
        env.CUR.w = self
        self.sem.acquire()
        self.started = True
        try:
            if self.abort:
                raise Abort()
            sys.settrace(self._global_trace)
            try:
                for op in self.program:
                    out = O.run(self.s.store, op, self.s.ctx)
                    self.results.append(out)
            finally:
                sys.settrace(None)
        except Abort:
            pass
        except BaseException as e:  # noqa: BLE001
            if not self.abort:
                self.s.errors.append("%s: %r" % (self.name, e))
        finally:
            self.done = True
            env.CUR.w = None
            self.s.finished(self)

    # -- worker interface of the interposition layer ------------------------------------------------
    def point(self, op, pred=None):
        if self.abort:
            return
        self._event(op)
        if is_yield(op):
            self.yields += 1
            if self.yields > MAX_YIELDS:
                self.s.livelock(self, op)
            self.s.switch(self, None)  # sleeping / polling: let the others run (voluntary, not a pre-emption)
        while pred is not None and not pred():
            if self.abort:
                raise Abort()
            self.s.switch(self, pred, op)
        if self.abort:
            raise Abort()

    def private(self, op):
        pass

    def obs(self, *x):
        pass

    def adjust_write(self, op, n):
        return n


class LSched:
    def __init__(self, store, ctx):
        self.store = store
        self.ctx = ctx
        self.workers = []
        self.errors = []
        self.main_sem = threading.Semaphore(0)
        self.deadlock = None
        self.preempted = None
        self.preempted2 = None
        self.probe = False
        self.switches = 0

    def _eligible(self, me):
        out = []
        for w in self.workers:
            if w is me or w.done:
                continue
            if w.pred is None or w.pred():
                out.append(w)
        return out

    def switch(self, me, pred, op=None):
        """`me` gives up the processor: pre-empted (pred None) or blocked on `pred`."""
        el = self._eligible(me)
        if not el:
            if pred is None:
                return  # nobody else can run: the pre-emption is void
            self.deadlock = tuple((w.name, w.blocked_op) for w in self.workers if not w.done and w is not me) + (
                (me.name, op),)
            for w in self.workers:
                w.abort = True
            self.main_sem.release()
            me.sem.acquire()
            raise Abort()
        me.pred = pred
        me.blocked_op = op
        self.switches += 1
        el[0].sem.release()
        me.sem.acquire()
        me.pred = None
        if me.abort:
            raise Abort()

    def livelock(self, me, op):
        self.deadlock = tuple((w.name, ("livelock",) + tuple(getattr(w, "blocked_op", None) or op)[:2])
                              for w in self.workers if not w.done)
        for w in self.workers:
            w.abort = True
        self.main_sem.release()
        me.sem.acquire()
        raise Abort()

    def finished(self, me):
        el = self._eligible(me)
        if el:
            el[0].sem.release()
            return
        if any(not w.done for w in self.workers) and self.deadlock is None:
            self.deadlock = tuple((w.name, getattr(w, "blocked_op", None)) for w in self.workers if not w.done)
            for w in self.workers:
                w.abort = True
        self.main_sem.release()


def run_one(sc, root, first, n, gran="line", second=None, probe=False):
    """One execution: thread `first` is pre-empted at its n-th event (n=None: never); `second` = (thread, m) asks for a
    second pre-emption, of that thread at its own m-th event; `probe` records, for every thread, the events after the first
    pre-emption at which a second one would not be void (another thread could run)."""
    if getattr(sc, "faults", None):
        raise HarnessError("engine L injects no faults; scenario %s asks for %r" % (sc.name, sc.faults))
    env.reset_execution()
    restore(root, sc.init_tree)
    env.set_root(root)
    store = make_store(root, sc.p, {"USE_MULTIPROCESSING": "True" if sc.mode == "mp" else "False"})
    for k, v in list(vars(store).items()):
        if type(v) is list and "locked" in k:
            setattr(store, k, env.SList(v))
    s = LSched(store, sc.ctx)
    names = [first] + sorted(x for x in sc.threads if x != first)
    for name in names:
        w = LWorker(s, name, sc.threads[name], gran)
        w.blocked_op = None
        s.workers.append(w)
    s.workers[0].preempt_at = n
    s.probe = probe
    if second is not None:
        for w in s.workers:
            if w.name == second[0]:
                w.preempt_more = (second[1],)
    for w in s.workers:
        w.th.start()
    ex = Execution()
    ex.store = store
    try:
        s.workers[0].sem.release()
        if not s.main_sem.acquire(timeout=WATCHDOG_S):
            raise HarnessError("watchdog: no progress for %ds in %s (line-level, first=%s n=%r)" % (
                WATCHDOG_S, sc.name, first, n))
        if s.errors:
            raise HarnessError("controlled thread failed: %s" % s.errors)
    finally:
        for w in s.workers:
            if not w.done:
                w.abort = True
                w.sem.release()
        for w in s.workers:
            w.th.join(timeout=WATCHDOG_S)
    ex.deadlock = s.deadlock
    ex.results = {w.name: list(w.results) for w in s.workers}
    ex.sched = s
    ex.cut = False
    ex.events = {w.name: w.events for w in s.workers}
    ex.preempted = s.preempted
    ex.preempted2 = s.preempted2
    ex.cands = {w.name: list(w.cands) for w in s.workers}
    ex.choices = ["L", first, n, gran] + ([list(second)] if second is not None else [])
    return ex


def explore(sc, root, first, gran="line", chunk=(0, 1), time_cap=None, bound=1):
    """All executions with one pre-emption of `first` (n in this chunk's share of 1..N) plus, in chunk 0, the
    execution without pre-emption.  bound=2: for every such n, additionally every execution with a SECOND pre-emption - of the
    other thread at each of its events, or of `first` again after it resumed - at every event where it is not void (the
    candidates are recorded by the one-pre-emption run itself, which is the common prefix of all of them).
    Returns the same summary shape as engine_t.explore."""
    t0 = time.time()
    solo = run_one(sc, root, first, None, gran)
    again = run_one(sc, root, first, None, gran)
    if again.events != solo.events:
        # the first traced run of a process may lose events while the interpreter instruments the code objects
        solo, again = again, run_one(sc, root, first, None, gran)
        if again.events != solo.events:
            raise HarnessError("event count of %s is not deterministic: %r vs %r" % (sc.name, solo.events, again.events))
    N = solo.events[first]
    terminals = {}
    memo = {}
    nexec = 0
    events = 0
    capped = None
    k, K = chunk
    todo = [None] if k == 0 else []
    todo += [n for n in range(1, N + 1) if n % K == k]
    void = 0
    second_points = 0
    for n in todo:
        ex = solo if n is None else run_one(sc, root, first, n, gran, probe=bound >= 2)
        nexec += 1
        events += sum(ex.events.values())
        if n is not None and ex.sched.switches == 0:
            void += 1
        term = sc.terminal(ex, root)
        if term not in terminals:
            terminals[term] = list(ex.choices)
        if bound >= 2 and n is not None and ex.sched.switches:
            for name in sorted(ex.cands):
                for m in ex.cands[name]:
                    if name == first and m <= n:
                        continue
                    ex2 = run_one(sc, root, first, n, gran, second=(name, m))
                    if ex2.preempted2 is None or ex2.preempted2[:2] != (name, m):
                        raise HarnessError("second pre-emption (%s, %d) of %s was not reached: the execution diverged from "
                                           "the probing run" % (name, m, sc.name))
                    nexec += 1
                    second_points += 1
                    events += sum(ex2.events.values())
                    t2 = sc.terminal(ex2, root)
                    if t2 not in terminals:
                        terminals[t2] = list(ex2.choices)
                    if time_cap and time.time() - t0 > time_cap:
                        break
        if time_cap and time.time() - t0 > time_cap:
            capped = "time cap %ds (pre-emption points %d.. of %d unexplored in this share)" % (time_cap, n or 0, N)
            break
    return {"terminals": terminals, "executions": nexec, "states": 0, "transitions": events,
            "step_violations": [], "capped": capped, "wall": time.time() - t0,
            "preemption_points": N, "second_preemption_points": second_points, "void_preemptions": void, "passes": 1}
