import importlib
import json
import os
import sys
import traceback

from . import common


def main(argv):
    if not argv:
        print(__doc__ or "usage: check <Cxx> [--tier quick|thorough]")
        return 2
    tier = os.environ.get("VERIF_TIER", "quick")
    args = []
    it = iter(argv)
    for a in it:
        if a == "--tier":
            tier = next(it)
        elif a.startswith("--tier="):
            tier = a.split("=", 1)[1]
        else:
            args.append(a)
    if tier not in ("quick", "thorough"):
        print("unknown tier", tier)
        return 2
    cmd = args[0]
    try:
        if cmd == "selftest":
            from . import selftest
            return selftest.main(tier)
        if cmd == "replay":
            with open(args[1]) as f:
                rep = json.load(f)
            mod = importlib.import_module("hsverif.checks." + rep["property"].lower())
            return mod.replay(rep)
        mod = importlib.import_module("hsverif.checks." + cmd.lower())
        return mod.main(tier)
    except common.HarnessError as e:
        print("HARNESS-ERROR: %s" % e)
        return 2
    except Exception:  # noqa: BLE001
        traceback.print_exc()
        print("HARNESS-ERROR: unexpected exception in the checking machinery")
        return 2
