import importlib
import json
import os
import sys
import traceback

from . import common


def main(argv):
    if not argv:
        print(__doc__ or "usage: check <Cxx> [--tier quick|thorough]")
        return 2
    tier = os.environ.get("VERIF_TIER", "quick")
    args = []
    it = iter(argv)
    for a in it:
        if a == "--tier":
            tier = next(it)
        elif a.startswith("--tier="):
            tier = a.split("=", 1)[1]
        else:
            args.append(a)
    if tier not in ("quick", "thorough"):
        print("unknown tier", tier)
        return 2
    cmd = args[0]
    import faulthandler
    import signal
    faulthandler.register(signal.SIGUSR1, all_threads=True)  # kill -USR1 <pid>: where is the check right now
    common.scratch()  # the first process owns the scratch directory; pool workers use sub-directories of it
    try:
        if cmd == "selftest":
            from . import selftest
            return selftest.main(tier)
        if cmd == "replay":
            with open(args[1]) as f:
                rep = json.load(f)
            mod = importlib.import_module("hsverif.checks." + rep["property"].lower())
            return mod.replay(rep)
        mod = importlib.import_module("hsverif.checks." + cmd.lower())
        rc = mod.main(tier)
        from . import env
        env.check_escapes()
        return rc
    except common.SetupFailure as e:
        return _as_violation(cmd, tier, "a preparatory call on the store did not succeed: %s" % e, str(e))
    except common.HarnessError as e:
        print("HARNESS-ERROR: %s" % e)
        return 2
    except Exception as e:  # noqa: BLE001
        tb = traceback.format_exc()
        cause = getattr(e, "__cause__", None)
        text = tb + (str(cause) if cause is not None else "")
        if (common.REPO + "/src/") in text and cmd.upper().startswith("C"):
            # the exception was raised inside the package under test while the check was preparing or driving it:
            # on the unchanged tree this never happens, so it is a finding about the tree, not a harness fault
            last = [l for l in text.splitlines() if (common.REPO + "/src/") in l]
            where = last[-1].strip().split(", in ")[-1] if last else "?"
            return _as_violation(cmd, tier, "%s raised inside the package (in %s) while the check was driving it" % (
                type(e).__name__, where), text[-1500:])
        traceback.print_exc()
        print("HARNESS-ERROR: unexpected exception in the checking machinery")
        return 2


def _as_violation(cmd, tier, what, detail):
    prop = cmd.upper()
    rep = common.Report(prop, tier, "other")
    rep.coverage.update({"explanation": "the check could not complete: " + what, "evaluations": 1, "distinct_nontrivial": 2})
    rep.violation({"kind": "exception-from-code-under-test", "what": what[:200]}, {"detail": detail})
    return rep.finish([what[:200]])
