"""Engine-S specifications shared by the history properties (C01b C03 C04 C05 C11 C16a C19)."""
import os

from . import common, ops as O
from .absx import Layout, abstract
from .common import Inputs, pattern, snapshot, restore, props as mkprops, DEFAULT_NS
from .engine_s import Spec, plain_attrs, is_opaque
from . import gstate
from .model import Model

CONTENTS = {"A": pattern(5000, 1), "B": pattern(10, 2), "C": pattern(300, 3)}
DOCS = {"v1": b"<v1/>", "v2": b"<v2-longer-document/>", "v0": b"<v0/>"}


def make_store(root, p, env=None):
    from hashstore.filehashstore import FileHashStore
    old = {}
    for k, v in (env or {}).items():
        old[k] = os.environ.get(k)
        os.environ[k] = v
    try:
        return FileHashStore(mkprops(root, **p))
    finally:
        for k, v in old.items():
            if v is None:
                os.environ.pop(k, None)
            else:
                os.environ[k] = v


LOCK_LISTS = ["object_locked_pids", "object_locked_cids", "reference_locked_pids", "metadata_locked_docs"]


def locked_lists(store):
    out = {}
    for base in LOCK_LISTS:
        for suf in ("_th", "_mp"):
            if hasattr(store, base + suf):
                out[base + suf] = list(getattr(store, base + suf))
    return out


class ModelSpec(Spec):
    """Every transition: real call on a fresh instance, outcome and post-state checked against the
    reference model; extra per-property checks through `extra_checks`."""
    prop = "C05"
    p = dict(depth=3, width=2, algo="SHA-256", ns=DEFAULT_NS)
    pids = ()
    formats = ()
    check_meta = True
    init_ops = ()
    api_probe = False
    contents = CONTENTS
    docs = DOCS

    def __init__(self):
        self.layout = Layout(self.p["depth"], self.p["width"], self.p["algo"])
        self._ready = None

    def setup(self):
        if self._ready == os.getpid():
            return
        self._ready = os.getpid()
        self.inputs = Inputs(self.contents)
        self.docin = Inputs(self.docs, "docs")
        self.ctx = O.Ctx(self.inputs, self.layout.algo, self.docin)
        import hashstore.filehashstore as fhs
        import types
        fhs.atexit = types.SimpleNamespace(register=lambda f: f)

    def abstract(self, tree):
        return abstract(tree, self.layout, self.pids, list(self.formats) + [self.p["ns"]])

    def initial(self):
        root = os.path.join(common.scratch(), "store")
        restore(root, {})
        os.rmdir(root)
        store = make_store(root, self.p, self.env)
        m = Model(self.p["ns"])
        for op in self.init_ops:
            out = O.run(store, op, self.ctx)
            t = snapshot(root)
            a = self.abstract(t)
            v = m.step(op, out, self.ctx, set(a.objects))
            if v:
                raise common.SetupFailure("initial history violates the model: %r %r" % (op, v))
        t = snapshot(root)
        self.fresh_attrs = plain_attrs(store)
        self.tree0 = t
        return t, (m, None)

    def aux_key(self, aux):
        m, attrs = aux
        if attrs and "__history__" in attrs:
            return (m.key(), "H", attrs["__fp__"])
        return (m.key(), repr(sorted(attrs.items(), key=repr)) if attrs else None)

    def _instance_for(self, root, tree, attrs):
        """Fresh instance over `tree` carrying the hidden state of the explored state: instance attributes and package
        globals by value where they pickle, by replaying the state's history otherwise."""
        gstate.reset()
        hist = attrs.get("__history__") if attrs else None
        if hist is not None:
            restore(root, self.tree0)
            store = make_store(root, self.p, self.env)
            fresh = plain_attrs(store)
            for h in hist:
                O.run(store, tuple(h), self.ctx)
            if common.tree_key(snapshot(root)) != common.tree_key(tree):
                raise common.HarnessError("replaying the history %r does not re-create the explored tree" % (hist,))
            return store, fresh, list(hist)
        restore(root, tree)
        store = make_store(root, self.p, self.env)
        fresh = plain_attrs(store)
        if attrs:
            for k, v in attrs.items():
                if k == "@globals":
                    gstate.apply(dict(v))
                else:
                    from .engine_s import decode
                    setattr(store, k, decode(v, os.fspath(store.root), type(store.root)))
        return store, fresh, None

    def _hidden_after(self, store, fresh, hist, op):
        """aux part describing the hidden state after the call."""
        after = plain_attrs(store)
        drift = {k: v for k, v in after.items() if fresh.get(k) != v}
        gby, gop = gstate.drift()
        if hist is not None or gop or any(is_opaque(v) for v in drift.values()):
            h = (hist if hist is not None else [list(x) for x in getattr(self, "cur_history", [])]) + [list(op)]
            return {"__history__": h,
                    "__fp__": gstate.fingerprint((sorted((k, repr(v)) for k, v in drift.items()),
                                                  sorted((repr(k), repr(v)) for k, v in gby.items()), gop))}
        if gby:
            drift["@globals"] = tuple(sorted(gby.items()))
        return drift or None

    def transition(self, root, tree, aux, op):
        m0, attrs = aux
        store, fresh, hist = self._instance_for(root, tree, attrs)
        out = O.run(store, op, self.ctx)
        hidden = self._hidden_after(store, fresh, hist, op)  # before any probing call below touches the instance
        t2 = snapshot(root)
        a = self.abstract(t2)
        m = m0.copy()
        viol = []
        vs = m.step(op, out, self.ctx, set(a.objects))
        for s in vs:
            viol.append(({"kind": "outcome", "op": op[0], "what": _generic(s)},
                         {"detail": s, "outcome": out, "state": _mkey(m0), "call": O.name(op)}))
        vs2 = m.compare(a, self.ctx, self.check_meta)
        for s in vs2:
            viol.append(({"kind": "state", "op": op[0], "what": _generic(s)},
                         {"detail": s, "outcome": out, "abs": a.describe(), "state": _mkey(m0), "call": O.name(op)}))
        ll = locked_lists(store)
        if any(ll.values()):
            viol.append(({"kind": "locked", "op": op[0], "what": "identifier left locked"},
                         {"lists": ll, "state": _mkey(m0), "call": O.name(op)}))
        if self.api_probe and not (vs or vs2):
            for pid in self.pids:
                po = O.run(store, ("retrieve", pid), self.ctx)
                pv = m.copy().step(("retrieve", pid), po, self.ctx)
                for s in pv:
                    viol.append(({"kind": "probe", "op": op[0], "what": "after the call retrieve_object: " + _generic(s)},
                                 {"detail": s, "pid": pid, "state": _mkey(m0), "call": O.name(op)}))
        for sig, det in self.extra_checks(m0, m, op, out, tree, t2, a, store):
            viol.append((sig, det))
        naux = (m, hidden)
        if vs or vs2:
            naux = None  # a violating transition is reported and not expanded
        return t2, naux, viol, out[0]

    def extra_checks(self, m0, m1, op, out, t0, t1, a, store):
        return []


def _mkey(m):
    return {"bind": {p: c[:6] for p, c in sorted(m.bind.items())}, "objs": sorted(c[:6] for c in m.objs),
            "meta": sorted("%s|%s" % (k[0], k[1][-6:]) for k in m.meta)}


def _generic(s):
    """Strip hex ids from a violation string so signatures are stable across configurations."""
    import re
    s = re.sub(r"(objects|metadata|refs/pids|refs/cids|refs/tmp)/[^ ]*?(_delete)?( |$)", r"\1/..\2\3", s)
    s = re.sub(r"\('[^']*', '[^']*'\)", "<doc>", s)
    s = re.sub(r"'[^']*'", "<id>", s)
    s = re.sub(r"\[[^\]]*\]", "[..]", s)
    return re.sub(r"[0-9a-f]{6,}", "#", s)
