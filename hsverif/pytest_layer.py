"""pytest plugin (conformance only): run the repository's own suite with the file-system seams of
the interposition layer active for the main thread and EVERY path (root = '/'), lock primitives
untouched.  All tests must still pass: the seams are behaviour preserving."""
import pytest

from . import env

COUNTS = {"points": 0, "private": 0}


class Counting(env.BaseWorker):
    def point(self, op, pred=None):
        COUNTS["points"] += 1

    def private(self, op):
        COUNTS["private"] += 1


def pytest_configure(config):
    env.install(locks=False)
    env.STATE.root = "/"


@pytest.hookimpl(hookwrapper=True)
def pytest_runtest_call(item):
    env.CUR.w = Counting("T1")
    try:
        yield
    finally:
        env.CUR.w = None


def pytest_terminal_summary(terminalreporter):
    terminalreporter.write_line("hsverif layer: %d visible and %d private operations went through the seams" % (
        COUNTS["points"], COUNTS["private"]))
