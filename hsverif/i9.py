"""I9: the observer invariant of C09 on a directory tree - every permanent object file holds the
complete content its name is the digest of, every metadata document is a complete supplied version,
every pid reference holds one complete cid."""
import hashlib

from . import env

_DIG = {}


def _digest(algo, b):
    k = (algo, hashlib.blake2b(b, digest_size=12).digest(), len(b))
    if k not in _DIG:
        _DIG[k] = hashlib.new(algo, b).hexdigest()
    return _DIG[k]


def check_path(r, content, algo, allowed_docs, allowed_cids):
    """Return a violation string or None for file `r` holding `content` (bytes)."""
    parts = r.split("/")
    if env.is_private(r) or parts[-1].endswith("_delete") or content is None:
        return None
    if parts[0] == "objects":
        cid = "".join(parts[1:])
        if _digest(algo, content) != cid:
            return "object file at a permanent address holds %d bytes that do not hash to its name" % len(content)
    elif parts[0] == "metadata":
        if content not in allowed_docs:
            return "metadata document holds %d bytes that are not a complete supplied version" % len(content)
    elif parts[0] == "refs" and len(parts) > 2 and parts[1] == "pids":
        if content.decode("utf-8", "replace") not in allowed_cids:
            return "pid reference file holds %r, not one complete cid" % content[:80]
    return None


def check_tree(tree, algo, allowed_docs, allowed_cids, only=None):
    out = []
    for r in (only if only is not None else tree):
        c = tree.get(r)
        if c is None:
            continue
        v = check_path(r, c, algo, allowed_docs, allowed_cids)
        if v:
            out.append((r.split("/")[0] if not r.startswith("refs") else "refs/pids", v))
    return out


def allowed_sets(ctx, init_tree=None):
    docs = set(ctx.docs.data.values()) if ctx.docs else set()
    cids = {ctx.cid(n) for n in ctx.inputs.data} | {ctx.cid("N")}
    if init_tree:
        for r, c in init_tree.items():
            if c is not None and r.startswith("metadata/") and not env.is_private(r):
                docs.add(c)
    return docs, cids


def make_observer(sc):
    docs, cids = allowed_sets(sc.ctx, sc.init_tree)
    algo = sc.layout.algo

    def observer(prev, tree, thread, op, dirty):
        return [w for _, w in check_tree(tree, algo, docs, cids, only=[d for d in dirty if d in tree])]

    return observer


def make_removal_observer(sc):
    """C04 at step granularity: no step may remove an object file from its permanent address while, in the
    tree just before that step, some pid is completely bound to it (a pid reference file naming the cid AND
    that pid listed in the cid's reference list)."""
    lay = sc.layout
    pids = sc.pids

    def observer(prev, tree, thread, op, dirty):
        out = []
        for r in dirty:
            parts = r.split("/")
            if parts[0] != "objects" or env.is_private(r) or parts[-1].endswith("_delete"):
                continue
            if r in prev and r not in tree:
                cid = "".join(parts[1:])
                lst = prev.get(lay.cid_ref_path(cid))
                if lst is None:
                    continue
                listed = set(lst.decode("utf-8", "replace").split("\n"))
                for pid in pids:
                    ref = prev.get(lay.pid_ref_path(pid))
                    if pid in listed and ref is not None and ref.decode("utf-8", "replace") == cid:
                        out.append("a step removed the object file although pid %r was completely bound to it" % pid)
        return out

    return observer
