"""Operation descriptors (plain tuples, JSON-able) and their execution on a real FileHashStore.

  ("store", pid, content, val)      val: None | "ok:<algo>" | "OK:<algo>" (upper-case hex) | "badck:<algo>" |
                                         "badsize" | "size" (correct size only) | "ok:<algo>+size" | "add:<algo>"
  ("store_nopid", content)
  ("tag", pid, cidname)             cidname: content name (its cid) or "N" (a cid never stored)
  ("delete", pid)
  ("dii", content, kind)            kind: "ok" | "badsize" | "badck" | "badboth" | "OK:<algo>" | "ok:<algo>" ...
  ("retrieve", pid)
  ("hexdigest", pid, algo)
  ("store_meta", pid, fmt, doc)     fmt: None means omitted
  ("retrieve_meta", pid, fmt)
  ("delete_meta", pid, fmt)         fmt: None means all documents
"""
import hashlib
import io

from .common import DEFAULT_ALGOS, digests

NEVER_CID = {"sha256": "f" * 64, "md5": "f" * 32, "sha1": "f" * 40, "sha384": "f" * 96, "sha512": "f" * 128}

EXISTS = {"HashStoreRefsAlreadyExists", "PidRefsAlreadyExistsError"}
MISMATCH = {"NonMatchingChecksum", "NonMatchingObjSize"}
ARGERR = {"ValueError", "TypeError", "UnsupportedAlgorithm"}


def classify(exc):
    n = type(exc).__name__
    if n in EXISTS:
        return "exists"
    if n in MISMATCH:
        return "mismatch"
    return n


class Ctx:
    """What an execution needs besides the store: input files and the store algorithm."""

    def __init__(self, inputs, algo="sha256", docs=None):
        self.inputs = inputs
        self.algo = algo
        self.docs = docs  # Inputs for metadata documents

    def cid(self, name):
        if name.endswith("^"):
            return self.cid(name[:-1]).upper()  # the same digest spelled in upper case: a different cid string
        if name == "N":
            return NEVER_CID[self.algo]
        return hashlib.new(self.algo, self.inputs.data[name]).hexdigest()

    def object_metadata(self, name):
        from hashstore.filehashstore import ObjectMetadata
        d = self.inputs.data[name.rstrip("^")]
        return ObjectMetadata("HashStoreNoPid", self.cid(name), len(d), digests(d, DEFAULT_ALGOS))

    def validation(self, name, val):
        """kwargs for store_object / args for dii from a validation kind."""
        d = self.inputs.data[name]
        kw = {}
        if val is None:
            return kw
        for part in val.split("+"):
            if part == "size":
                kw["expected_object_size"] = len(d)
            elif part == "badsize":
                kw["expected_object_size"] = len(d) + 1
            elif part.startswith("ok:"):
                a = part[3:]
                kw["checksum"] = hashlib.new(_hl(a), d).hexdigest()
                kw["checksum_algorithm"] = a
            elif part.startswith("OK:"):
                a = part[3:]
                kw["checksum"] = hashlib.new(_hl(a), d).hexdigest().upper()
                kw["checksum_algorithm"] = a
            elif part.startswith("badck:"):
                a = part[6:]
                h = hashlib.new(_hl(a), d).hexdigest()
                kw["checksum"] = ("0" if h[0] != "0" else "1") + h[1:]
                kw["checksum_algorithm"] = a
            elif part.startswith("add:"):
                kw["additional_algorithm"] = part[4:]
            else:
                raise ValueError(part)
        return kw


def _hl(a):
    """hashlib name of an algorithm spelling (independent of the package's cleaner)."""
    s = a.lower()
    digits = sum(ch.isdigit() for ch in s)
    s = s.replace("-", "_") if digits > 3 else s.replace("-", "").replace("_", "")
    return s


def valid_verdict(val):
    """True iff a validation kind describes data that matches the content."""
    if val is None:
        return True
    return not any(p == "badsize" or p.startswith("badck:") for p in val.split("+"))


def run(store, op, ctx):
    """Execute one descriptor.  Returns (cls, value): cls 'ok' or an exception class / family."""
    try:
        return "ok", _run(store, op, ctx)
    except Exception as e:  # noqa: BLE001 - the class is the observation
        return classify(e), str(e)[:200]


def _om(m):
    return (m.cid, m.obj_size, tuple(sorted(m.hex_digests.items())))


def _run(store, op, ctx):
    k = op[0]
    if k == "store":
        _, pid, c, val = op
        return _om(store.store_object(pid, ctx.inputs.path(c), **ctx.validation(c, val)))
    if k == "store_nopid":
        return _om(store.store_object(None, ctx.inputs.path(op[1])))
    if k == "tag":
        return store.tag_object(op[1], ctx.cid(op[2]))
    if k == "delete":
        return store.delete_object(op[1])
    if k == "dii":
        _, c, kind = op
        d = ctx.inputs.data[c.rstrip("^")]
        if kind == "ok":
            kind = "ok:sha256+size"
        elif kind == "badboth":
            kind = "badck:sha256+badsize"
        elif kind == "badck":
            kind = "badck:sha256+size"
        elif kind == "badsize":
            kind = "ok:sha256+badsize"
        kw = ctx.validation(c.rstrip("^"), kind)
        if "checksum" not in kw:
            kw["checksum"] = hashlib.sha256(d).hexdigest()
            kw["checksum_algorithm"] = "sha256"
        if "expected_object_size" not in kw:
            kw["expected_object_size"] = len(d)
        return store.delete_if_invalid_object(ctx.object_metadata(c), kw["checksum"], kw["checksum_algorithm"],
                                              kw["expected_object_size"])
    if k == "retrieve":
        s = store.retrieve_object(op[1])
        try:
            return s.read()
        finally:
            s.close()
    if k == "hexdigest":
        return store.get_hex_digest(op[1], op[2])
    if k == "store_meta":
        _, pid, fmt, doc = op
        if fmt is None:
            store.store_metadata(pid, ctx.docs.path(doc))
        else:
            store.store_metadata(pid, ctx.docs.path(doc), fmt)
        return None
    if k == "retrieve_meta":
        _, pid, fmt = op
        s = store.retrieve_metadata(pid) if fmt is None else store.retrieve_metadata(pid, fmt)
        try:
            return s.read()
        finally:
            s.close()
    if k == "delete_meta":
        _, pid, fmt = op
        return store.delete_metadata(pid) if fmt is None else store.delete_metadata(pid, fmt)
    raise ValueError(op)


def dii_valid(kind):
    return kind in ("ok",) or (kind not in ("badsize", "badck", "badboth") and valid_verdict(kind))


def name(op):
    return "%s(%s)" % (op[0], ",".join("-" if x is None else str(x) for x in op[1:]))
