"""Reference model of the store, written from the property statements only (C03-C06, C11, C17, C19).

It is deliberately boring: three dictionaries and a set.  It knows nothing about files, locks or
I/O errors.  Where a property leaves freedom (an unreferenced object MAY remain after a rejected
tagging) the model adopts what was observed and checks the stated bound only.
"""
import copy
import hashlib

from .common import DEFAULT_ALGOS, DEFAULT_NS
from . import ops as O


class Model:
    def __init__(self, ns=DEFAULT_NS):
        self.bind = {}  # pid -> cid
        self.objs = set()  # cids whose object file must be present
        self.unref_ok = set()  # cids that may exist without any reference
        self.meta = {}  # (pid, resolved format) -> document name
        self.ns = ns

    def copy(self):
        return copy.deepcopy(self)

    def key(self):
        return (tuple(sorted(self.bind.items())), tuple(sorted(self.objs)), tuple(sorted(self.unref_ok)),
                tuple(sorted(self.meta.items())))

    def refs(self, cid):
        return sorted(p for p, c in self.bind.items() if c == cid)

    # ------------------------------------------------------------------ one transition
    def step(self, op, outcome, ctx, objects_after=None):
        """Check the outcome of `op` against the model and advance it.
        `objects_after`: set of cids observed at permanent object addresses after the call (used
        only where the statements leave freedom).  Returns a list of violation strings."""
        cls, val = outcome
        v = []
        k = op[0]

        def expect(*classes):
            if cls not in classes:
                v.append("outcome %s, expected %s" % (cls, "|".join(classes)))
                return False
            return True

        if k in ("store", "store_nopid"):
            pid = op[1] if k == "store" else None
            c = op[2] if k == "store" else op[1]
            val_kind = op[3] if k == "store" else None
            data = ctx.inputs.data[c]
            cid = ctx.cid(c)
            valid = O.valid_verdict(val_kind)
            if pid is not None and not valid and pid in self.bind:
                expect("mismatch", "exists")
            elif pid is not None and not valid:
                expect("mismatch")
                if cid not in self.objs and objects_after is not None and cid in objects_after:
                    v.append("rejected (invalid) store added object %s" % cid[:8])
            elif pid is not None and pid in self.bind:
                expect("exists")
            else:
                if expect("ok"):
                    want = self.expected_store_value(data, cid, val_kind)
                    if val != want:
                        v.append("store returned %r, expected %r" % (_short(val), _short(want)))
                    if pid is not None:
                        self.bind[pid] = cid
                    self.objs.add(cid)
                    if pid is None and not self.refs(cid):
                        self.unref_ok.add(cid)
            if cls != "ok" and (pid is None or valid) and objects_after is not None:
                # tagging rejected (or failed): the object may have been stored first
                if cid in objects_after and cid not in self.objs:
                    self.objs.add(cid)
                    if not self.refs(cid):
                        self.unref_ok.add(cid)
        elif k == "tag":
            _, pid, cn = op
            cid = ctx.cid(cn)
            if pid in self.bind:
                expect("exists")
            elif expect("ok"):
                self.bind[pid] = cid
        elif k == "delete":
            pid = op[1]
            if pid not in self.bind:
                expect("PidRefsDoesNotExist")
            elif expect("ok"):
                cid = self.bind.pop(pid)
                if not self.refs(cid):
                    self.objs.discard(cid)
                    self.unref_ok.discard(cid)
                for key in [x for x in self.meta if x[0] == pid]:
                    del self.meta[key]
        elif k == "dii":
            _, c, kind = op
            cid = ctx.cid(c)
            if cid not in self.objs:
                pass  # verifying an object that is not stored: outside every statement
            elif O.dii_valid(kind):
                expect("ok")
            else:
                expect("mismatch")
                if not self.refs(cid):
                    self.objs.discard(cid)
                    self.unref_ok.discard(cid)
        elif k in ("retrieve", "hexdigest"):
            pid = op[1]
            if pid not in self.bind:
                expect("PidRefsDoesNotExist")
            elif self.bind[pid] not in self.objs:
                expect("RefsFileExistsButCidObjMissing")
            elif expect("ok"):
                data = self.content_of(self.bind[pid], ctx)
                want = data if k == "retrieve" else hashlib.new(O._hl(op[2]), data).hexdigest()
                if val != want:
                    v.append("%s returned %r, expected %r" % (k, _short(val), _short(want)))
        elif k == "store_meta":
            _, pid, fmt, doc = op
            if expect("ok"):
                self.meta[(pid, self.ns if fmt is None else fmt)] = doc
        elif k == "retrieve_meta":
            _, pid, fmt = op
            key = (pid, self.ns if fmt is None else fmt)
            if key not in self.meta:
                expect("ValueError", "FileNotFoundError")
            elif expect("ok"):
                want = ctx.docs.data[self.meta[key]]
                if val != want:
                    v.append("retrieve_metadata returned %r, expected %r" % (_short(val), _short(want)))
        elif k == "delete_meta":
            _, pid, fmt = op
            if expect("ok"):
                if fmt is None:
                    for key in [x for x in self.meta if x[0] == pid]:
                        del self.meta[key]
                else:
                    self.meta.pop((pid, fmt), None)
        else:
            raise ValueError(op)
        return v

    def expected_store_value(self, data, cid, val_kind):
        algos = list(DEFAULT_ALGOS)
        if val_kind:
            for part in val_kind.split("+"):
                if ":" in part:
                    a = O._hl(part.split(":", 1)[1])
                    if a not in algos:
                        algos.append(a)
        return (cid, len(data), tuple(sorted((a, hashlib.new(a, data).hexdigest()) for a in algos)))

    def content_of(self, cid, ctx):
        for n, d in ctx.inputs.data.items():
            if ctx.cid(n) == cid:
                return d
        return None

    # ------------------------------------------------------------------ state comparison
    def compare(self, a, ctx, check_meta=True):
        """Violations of 'the abstraction of the directory equals the model' (C05 wording)."""
        v = []
        # pid references
        for pid, cid in self.bind.items():
            t = a.pid_refs.get(pid)
            if t is None:
                v.append("bound pid %r has no pid reference file" % pid)
            elif t != cid:
                v.append("pid reference of %r holds %r, expected %s" % (pid, t[:70], cid[:8]))
        for pid in a.pid_refs:
            if pid not in self.bind:
                v.append("pid reference file for unbound pid %r" % (pid,))
        # cid lists
        want = {}
        for pid, cid in self.bind.items():
            want.setdefault(cid, []).append(pid)
        for cid, pids in want.items():
            lines = a.cid_lines(cid)
            if lines is None:
                v.append("cid %s has no reference list, expected %r" % (cid[:8], sorted(pids)))
                continue
            if not a.cid_refs[cid].endswith("\n"):
                v.append("reference list of %s is not newline terminated" % cid[:8])
            if sorted(lines) != sorted(pids):
                v.append("reference list of %s is %r, expected %r" % (cid[:8], lines, sorted(pids)))
        for cid in a.cid_refs:
            if cid not in want:
                v.append("reference list for cid %s that no pid is bound to: %r" % (cid[:8], a.cid_refs[cid][:60]))
        # objects
        for cid in self.objs:
            if cid not in a.objects:
                v.append("object %s missing (referenced by %r)" % (cid[:8], self.refs(cid)))
        for cid in a.objects:
            if cid not in self.objs:
                v.append("object %s present, model says absent" % cid[:8])
            elif not self.refs(cid) and cid not in self.unref_ok:
                v.append("unreferenced object %s not permitted by the history" % cid[:8])
        for cid in a.corrupt:
            v.append("object %s does not hash to its address" % cid[:8])
        for cid, b in a.objects.items():
            d = self.content_of(cid, ctx)
            if d is not None and b != d:
                v.append("object %s bytes differ from the stored content" % cid[:8])
        if check_meta:
            for key, doc in self.meta.items():
                b = a.metadata.get(key)
                if b is None:
                    v.append("metadata document %r missing" % (key,))
                elif b != ctx.docs.data[doc]:
                    v.append("metadata document %r has wrong bytes" % (key,))
            for key in a.metadata:
                if key not in self.meta:
                    v.append("metadata document %r present, model says absent" % (key,))
        for kind, r in a.residue:
            v.append("%s file left behind: %s" % (kind, r))
        return v


def _short(x):
    if isinstance(x, bytes):
        return "%d bytes %s" % (len(x), hashlib.md5(x).hexdigest()[:8])
    if isinstance(x, tuple) and len(x) == 3 and isinstance(x[2], tuple):
        return (x[0][:8], x[1], tuple(a for a, _ in x[2]))
    return x
