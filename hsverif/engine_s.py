"""Engine S: sequential explicit-state exploration of the real FileHashStore.

Breadth-first search over API-call sequences.  A state is the complete concrete directory tree
(plus the plain-data attributes of the store instance and the reference model's state); every
operation of the alphabet is applied to every state by materialising the tree in a scratch
directory, constructing a real FileHashStore on it and calling the real method.  The search runs
until no new state appears (closure) or a depth / state cap is hit (reported).
"""
import collections
import multiprocessing
import os
import pickle
import signal
import random
import time

from . import common
from .common import snapshot, restore, tree_key

_SPEC = None  # set in the parent before the pool forks


class Spec:
    """Subclass and fill in.  `ops` is the alphabet (tuples)."""
    name = "spec"
    props = {}  # store_depth, store_width, store_algorithm, store_metadata_namespace
    ops = []
    key_dirs = True  # keep empty directories in the de-duplication key
    env = {}  # environment variables set while constructing the store (e.g. USE_MULTIPROCESSING)

    def setup(self):
        """Per-process preparation (input files...).  Called once in every worker."""

    def initial(self):
        """Return (tree, aux) for the initial state; aux is spec-defined (e.g. the model)."""
        raise NotImplementedError

    def transition(self, root, tree, aux, op):
        """Materialise `tree` at `root`, run `op` on the real code.  Return
        (new_tree, new_aux or None when the successor must not be expanded, violations, observation)
        violations: list of (signature dict, detail dict)."""
        raise NotImplementedError

    def aux_key(self, aux):
        return None


TRANSITION_TIMEOUT_S = 10


class TransitionTimeout(BaseException):
    pass


def _on_alarm(signum, frame):
    raise TransitionTimeout()


_SKIP_MODULES = ("threading", "multiprocessing", "_thread", "logging", "hsverif", "types", "functools")


def _encode(v, root, depth=0):
    """Values carried from one transition to the next may embed the producing worker's store directory (a memoised Path, a
    string); they are re-based on the consuming worker's directory: paths under the root become root-relative tokens."""
    if isinstance(v, os.PathLike):
        s = os.fspath(v)
        if isinstance(s, str) and root and (s == root or s.startswith(root + "/")):
            return ("\0relpath", s[len(root):])
        return ("\0path", s)
    if isinstance(v, str) and root and (v == root or v.startswith(root + "/")):
        return ("\0relstr", v[len(root):])
    if depth < 6:
        if isinstance(v, list):
            return [_encode(x, root, depth + 1) for x in v]
        if isinstance(v, tuple):
            return ("\0tuple", [_encode(x, root, depth + 1) for x in v])
        if isinstance(v, dict):
            return {("\0key", _freeze(_encode(k, root, depth + 1))) if isinstance(k, (os.PathLike, tuple)) or (
                isinstance(k, str) and root and k.startswith(root)) else k: _encode(x, root, depth + 1) for k, x in v.items()}
    return v


def _freeze(x):
    return tuple(_freeze(y) for y in x) if isinstance(x, list) else x


def decode(v, root, path_type):
    if isinstance(v, tuple) and len(v) == 2 and isinstance(v[0], str) and v[0].startswith("\0"):
        tag, val = v
        if tag == "\0relpath":
            return path_type(root + val)
        if tag == "\0path":
            return path_type(val)
        if tag == "\0relstr":
            return root + val
        if tag == "\0tuple":
            return tuple(decode(x, root, path_type) for x in val)
        if tag == "\0key":
            return decode(val, root, path_type)
    if isinstance(v, list):
        return [decode(x, root, path_type) for x in v]
    if isinstance(v, tuple):
        return tuple(decode(x, root, path_type) for x in v)
    if isinstance(v, dict):
        return {decode(k, root, path_type) if isinstance(k, tuple) else k: decode(x, root, path_type) for k, x in v.items()}
    return v


def plain_attrs(store):
    """Data attributes of a store instance (everything that is not a lock/condition/logger).  Values that can be
    pickled are carried by value (paths under the store directory re-based, see _encode); anything else (a hash object, a
    buffer, a helper object) is represented by ("opaque", fingerprint) - a state that drifted in such an attribute is
    re-created by replaying its history."""
    from . import gstate
    root = ""
    try:
        root = os.fspath(getattr(store, "root", "")) or ""
    except TypeError:
        root = ""
    out = {}
    for k, v in vars(store).items():
        if isinstance(v, (str, int, float, bool, type(None), list, dict, set, tuple)) or isinstance(v, os.PathLike):
            try:
                out[k] = pickle.loads(pickle.dumps(_encode(v, root)))
            except Exception:  # noqa: BLE001
                out[k] = ("opaque", gstate.fingerprint(v))
        elif (type(v).__module__ or "").split(".")[0] in _SKIP_MODULES or callable(v):
            continue
        else:
            out[k] = ("opaque", gstate.fingerprint(v))
    return out


def is_opaque(v):
    return isinstance(v, tuple) and len(v) == 2 and v[0] == "opaque"


def _worker_init():
    _SPEC.setup()


def _expand(task):
    tree, aux, depth, hist = task
    root = os.path.join(common.scratch(), "store")
    res = []
    _SPEC.cur_history = [_SPEC.ops[j] for j in hist]  # for states whose hidden state must be re-created by replay
    for i, op in enumerate(_SPEC.ops):
        # a call of the real code that waits for an identifier nobody will release would hang the exploration: every
        # transition runs under an alarm, and a transition that does not return is a verdict (the store blocked)
        signal.signal(signal.SIGALRM, _on_alarm)
        signal.alarm(TRANSITION_TIMEOUT_S)
        try:
            nt, naux, viol, obs = _SPEC.transition(root, tree, aux, op)
        except TransitionTimeout:
            nt, naux, obs = tree, None, "BLOCKED"
            viol = [({"kind": "blocked", "op": op[0],
                      "what": "the call (or a probing call after it on the same instance) did not return within %d s: "
                              "it waits for an identifier that is never released" % TRANSITION_TIMEOUT_S},
                     {"call": list(op)})]
        finally:
            signal.alarm(0)
        res.append((i, nt, naux, viol, obs))
    return hist, depth, res


class Result:
    def __init__(self):
        self.states = 0
        self.transitions = 0
        self.max_depth = 0
        self.closed = False
        self.cap = None
        self.violations = []  # (signature, detail)
        self.outcomes = collections.Counter()
        self.samples = []
        self.pruned = 0


def explore(spec, max_depth=None, max_states=None, time_cap=None, workers=None, seed=0, bail_states=3000):
    global _SPEC
    _SPEC = spec
    spec.setup()
    tree0, aux0 = spec.initial()
    res = Result()
    seen = {(tree_key(tree0, spec.key_dirs), spec.aux_key(aux0))}
    frontier = [(tree0, aux0, 0, [])]
    res.states = 1
    t0 = time.time()
    workers = workers or min(16, os.cpu_count() or 1)
    ctx = multiprocessing.get_context("fork")
    pool = ctx.Pool(workers, initializer=_worker_init)
    rng = random.Random(seed)
    order = list(range(len(spec.ops)))
    try:
        depth = 0
        while frontier:
            if max_depth is not None and depth >= max_depth:
                res.cap = "depth %d (frontier of %d states not expanded)" % (max_depth, len(frontier))
                break
            nxt = []
            rng.shuffle(frontier)
            # the frontier is handed to the pool in slices that are drained completely: a time cap then never leaves a
            # backlog of large pending tasks behind (Pool.terminate() can block for ever on one)
            timed_out = False
            for lo in range(0, len(frontier), 256):
                for hist, d, out in pool.imap_unordered(_expand, frontier[lo:lo + 256], chunksize=1):
                    for i, nt, naux, viol, obs in out:
                        res.transitions += 1
                        res.outcomes[(spec.ops[i][0], obs)] += 1
                        h2 = hist + [i]
                        for sig, det in viol:
                            det = dict(det)
                            det["history"] = [list(spec.ops[j]) for j in h2]
                            res.violations.append((sig, det))
                        if naux is None:
                            res.pruned += 1
                            continue
                        k = (tree_key(nt, spec.key_dirs), spec.aux_key(naux))
                        if k not in seen:
                            seen.add(k)
                            res.states += 1
                            nxt.append((nt, naux, d + 1, h2))
                            if len(res.samples) < 6 and len(h2) >= 2 and rng.random() < 0.05:
                                res.samples.append([common.jsonable(spec.ops[j]) for j in h2])
                if sum(1 for sig, _ in res.violations if sig.get("kind") == "blocked") >= 16 and lo + 256 < len(frontier):
                    timed_out = True
                    res.cap = "stopped after 16 transitions that never returned (each costs the %d s watchdog)" % TRANSITION_TIMEOUT_S
                    break
                if time_cap and time.time() - t0 > time_cap and lo + 256 < len(frontier):
                    timed_out = True
                    res.cap = "time cap %ds at depth %d (%d of %d frontier states not expanded)" % (
                        time_cap, depth, len(frontier) - lo - 256, len(frontier))
                    break
            if timed_out:
                break
            depth += 1
            res.max_depth = depth if nxt else res.max_depth
            if nxt:
                res.max_depth = depth
            frontier = sorted(nxt, key=lambda s: s[3])
            if max_states is not None and res.states >= max_states and frontier:
                res.cap = "state cap %d (frontier of %d states not expanded)" % (max_states, len(frontier))
                break
            if res.violations and res.states >= bail_states and frontier:
                res.cap = "stopped after violations were found and %d states were reached" % res.states
                break
            if time_cap and time.time() - t0 > time_cap and frontier:
                res.cap = "time cap %ds at depth %d (frontier of %d states not expanded)" % (
                    time_cap, depth, len(frontier))
                break
        else:
            res.closed = True
    finally:
        pool.terminate()
        pool.join()
    if not res.samples and res.transitions:
        res.samples.append([common.jsonable(spec.ops[0])])
    return res
