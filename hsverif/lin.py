"""Linearizability oracle for engine T: terminal observations of concurrent executions are compared
with those of every sequential order of the same calls, obtained by running the real code."""
import itertools
import os

from . import common, env, engine_t, ops as O
from .absx import Layout, abstract
from .common import restore
from .specs import make_store, locked_lists

IN_PROGRESS = "StoreObjectForPidAlreadyInProgress"


def outcome_key(out, op=None, faulted=False):
    cls, val = out
    if faulted and cls != "ok":
        return ("failed",)  # which error class a call hit by an injected I/O error ends with is not prescribed
    if op is not None and op[0] == "retrieve_meta" and cls in ("ValueError", "FileNotFoundError"):
        return ("notfound",)  # C12: 'a reader gets one complete version or a not-found error'
    if cls != "ok":
        return (cls,)
    return ("ok", engine_t._valkey(val))


class LinScenario(engine_t.Scenario):
    """Scenario whose terminal observation is (per-call outcomes, API-visible final state,
    directory abstraction, residue, locked lists, follow-up results)."""
    pids = ()
    formats = ()
    followups = ()  # op descriptors run after the execution on the live store (C08)

    def __init__(self, name, init_tree, threads, p, ctx, pids, formats=(), mode="th", split_instances=False,
                 followups=()):
        super().__init__(name, init_tree, threads, p, ctx, mode, split_instances)
        self.pids = tuple(pids)
        self.formats = tuple(formats)
        self.layout = Layout(p["depth"], p["width"], p["algo"])
        self.followups = tuple(followups)

    def observe_store(self, store, root):
        tree = engine_t.read_tree(root)
        a = abstract(tree, self.layout, self.pids, list(self.formats) + [self.p["ns"]])
        api = []
        for pid in self.pids:
            api.append((pid, outcome_key(O.run(store, ("retrieve", pid), self.ctx))))
            for f in self.formats:
                api.append((pid, f, outcome_key(O.run(store, ("retrieve_meta", pid, f), self.ctx))))
        ll = locked_lists(store)
        locked = tuple(sorted((k, tuple(v)) for k, v in ll.items() if v))
        shim_held = tuple(i for i, sh in enumerate(env.STATE.shims) if isinstance(sh, env.SLock) and sh.owner is not None)
        state = (
            tuple(sorted((c, len(b)) for c, b in a.objects.items())), tuple(sorted(a.corrupt)),
            tuple(sorted((repr(k), v) for k, v in a.pid_refs.items())),
            tuple(sorted((c, tuple(sorted(a.cid_lines(c))), t.endswith("\n") or t == "") for c, t in a.cid_refs.items())),
            tuple(sorted((repr(k), engine_t._valkey(b)) for k, b in a.metadata.items())),
        )
        residue = tuple(sorted((k, env.canon(r) if k == "tmp" else _strip_shard(r)) for k, r in a.residue))
        fu = []
        for op in self.followups:
            fu.append((O.name(op), outcome_key(O.run(store, op, self.ctx))[0]))
        if self.followups and getattr(self, "observe_after_followups", False):
            # the same instance is used on after the overlapping calls: what the follow-up calls leave behind must be what
            # they leave behind after some sequential order too (in-memory state that went stale shows here)
            tree2 = engine_t.read_tree(root)
            a2 = abstract(tree2, self.layout, self.pids, list(self.formats) + [self.p["ns"]])
            left = (tuple(sorted(c[:6] for c in a2.objects)), tuple(sorted(repr(k) for k in a2.pid_refs)),
                    tuple(sorted((c[:6], tuple(sorted(a2.cid_lines(c)))) for c in a2.cid_refs)),
                    tuple(sorted(repr(k) for k in a2.metadata)))  # (residue is observed once, before the follow-ups)
            fu.append(("state after follow-ups", repr(left)))
        return {"api": tuple(api), "state": state, "residue": residue, "locked": (locked, shim_held),
                "followups": tuple(fu)}

    def terminal(self, ex, root):
        if ex.deadlock is not None:
            return ("DEADLOCK", tuple((n, op[:2] if op else None) for n, op in ex.deadlock))
        fl = getattr(self, "faults", None) or {}
        outs = tuple((n, tuple(outcome_key(o, self.threads[n][i], n in fl and i == 0) for i, o in enumerate(ex.results[n])))
                     for n in sorted(ex.results))
        obs = self.observe_store(ex.store, root)
        return ("END", outs, obs["api"], obs["state"], obs["residue"], obs["locked"], obs["followups"])

    # ------------------------------------------------------------------ sequential reference
    def sequential_terminals(self, root, drop=frozenset()):
        """Terminals of every sequential order (respecting program order inside a thread) of the
        scenario's calls, minus the calls in `drop` ({(thread, index)})."""
        calls = []
        for n in sorted(self.threads):
            for i, op in enumerate(self.threads[n]):
                if (n, i) not in drop:
                    calls.append((n, i, op))
        res = {}
        for perm in itertools.permutations(calls):
            ok = True
            pos = {}
            for n, i, _ in perm:
                if pos.get(n, -1) > i:
                    ok = False
                    break
                pos[n] = i
            if not ok:
                continue
            env.reset_execution()
            restore(root, self.init_tree)
            env.set_root(root)
            store = make_store(root, self.p, {"USE_MULTIPROCESSING": "True" if self.mode == "mp" else "False"})
            results = {n: [None] * len(self.threads[n]) for n in self.threads}
            faults = getattr(self, "faults", None) or {}
            for n, i, op in perm:
                if n in faults and i == 0:
                    # the same injected fault as in the concurrent run (first call of that thread)
                    from . import engine_f
                    env.CUR.w = engine_f.SeqFaultWorker(faults[n])
                    try:
                        results[n][i] = O.run(store, op, self.ctx)
                    finally:
                        env.CUR.w = None
                else:
                    results[n][i] = O.run(store, op, self.ctx)
            outs = tuple((n, tuple(outcome_key(o, self.threads[n][i], n in faults and i == 0) if o is not None else ("ABSENT",)
                                   for i, o in enumerate(results[n])))
                         for n in sorted(results))
            obs = self.observe_store(store, root)
            term = ("END", outs, obs["api"], obs["state"], obs["residue"], obs["locked"], obs["followups"])
            res.setdefault(term, [(n, i) for n, i, _ in perm])
        return res

    def judge(self, term, root, cache):
        """Return (verdict, kind, explanation).  verdict: 'linearizable' | 'in-progress' | 'violation'."""
        if term[0] == "DEADLOCK":
            return "violation", "deadlock", "no enabled thread while %r not finished" % (term[1],)
        if frozenset() not in cache:
            cache[frozenset()] = self.sequential_terminals(root)
        if term in cache[frozenset()]:
            return "linearizable", None, None
        # permitted extra outcome: in-progress rejection of a store whose pid another thread is storing
        outs = dict(term[1])
        drop = set()
        for n, os_ in outs.items():
            for i, o in enumerate(os_):
                if o == (IN_PROGRESS,):
                    op = self.threads[n][i]
                    if op[0] == "store" and any(
                            m != n and any(x[0] == "store" and x[1] == op[1] for x in self.threads[m])
                            for m in self.threads):
                        drop.add((n, i))
        if drop:
            d = frozenset(drop)
            if d not in cache:
                cache[d] = self.sequential_terminals(root, d)
            t2 = (term[0], tuple((n, tuple(("ABSENT",) if (n, i) in d else o for i, o in enumerate(os_)))
                                 for n, os_ in term[1])) + term[2:]
            if t2 in cache[d]:
                return "in-progress", None, None
        # classify what differs from the closest sequential terminal
        seqs = list(cache[frozenset()])
        kinds = []
        if term[5] != ((), ()):
            kinds.append("identifier-left-locked")
        if not any(s[1] == term[1] for s in seqs):
            kinds.append("outcome")
        if not any(s[1] == term[1] and s[2] == term[2] and s[3] == term[3] for s in seqs):
            kinds.append("state")
        if any(s[:4] == term[:4] and s[5:] == term[5:] for s in seqs):
            kinds = ["residue-only"]
        if not kinds:
            kinds.append("followup")
        return "violation", "+".join(kinds), None


def _strip_shard(r):
    parts = r.split("/")
    if parts[0] == "refs":
        return "/".join(parts[:2]) + "/.." + ("_delete" if r.endswith("_delete") else "")
    return parts[0] + "/.." + ("_delete" if r.endswith("_delete") else "")


def describe_terminal(term):
    if term[0] == "DEADLOCK":
        return {"deadlock": common.jsonable(term[1])}
    return {"outcomes": {n: [o[0] for o in os_] for n, os_ in term[1]},
            "values": {n: [o[1] if len(o) > 1 and isinstance(o[1], str) else None for o in os_] for n, os_ in term[1]},
            "api": [list(x[:-1]) + [x[-1][0]] for x in term[2]],
            "objects": [c[:6] for c, _ in term[3][0]],
            "pid_refs": [(k, v[:6]) for k, v in term[3][2]],
            "cid_refs": [(c[:6], list(l)) for c, l, _ in term[3][3]],
            "metadata": [k for k, _ in term[3][4]],
            "residue": list(term[4]), "locked": common.jsonable(term[5]), "followups": list(term[6])}
