"""Independent implementation of the published HashStore layout (README) and an abstraction of a
store directory tree computed with it.  Shares no code with the package under test."""
import hashlib

from .common import STORE_ALGOS


UNKNOWN = "\0unexplained"


class Layout:
    def __init__(self, depth=3, width=2, algo="SHA-256"):
        self.depth = int(depth)
        self.width = int(width)
        self.algo = STORE_ALGOS.get(algo, algo)

    def H(self, s):
        if isinstance(s, str):
            s = s.encode("utf-8")
        return hashlib.new(self.algo, s).hexdigest()

    def shard(self, h):
        toks = [h[i * self.width:(i + 1) * self.width] for i in range(self.depth)]
        rest = h[self.depth * self.width:]
        return [t for t in toks + [rest] if t]

    def obj_path(self, cid):
        return "objects/" + "/".join(self.shard(cid))

    def pid_ref_path(self, pid):
        return "refs/pids/" + "/".join(self.shard(self.H(pid)))

    def cid_ref_path(self, cid):
        return "refs/cids/" + "/".join(self.shard(cid))

    def meta_dir(self, pid):
        return "metadata/" + "/".join(self.shard(self.H(pid)))

    def meta_path(self, pid, fmt):
        return self.meta_dir(pid) + "/" + self.H(pid + fmt)


class Abs:
    """Abstract store state.
    objects  : {cid: content digest ok? -> bytes}            (files under objects/ outside tmp)
    pid_refs : {pid or ('?', path): text}
    cid_refs : {cid: text}
    metadata : {(pid, fmt) or ('?', path): bytes}
    residue  : sorted list of (kind, path) for tmp files, *_delete files, alien files
    """

    def __init__(self):
        self.objects = {}
        self.corrupt = {}
        self.pid_refs = {}
        self.cid_refs = {}
        self.metadata = {}
        self.residue = []
        self.config = None

    def cid_lines(self, cid):
        t = self.cid_refs.get(cid)
        if t is None:
            return None
        return t.split("\n")[:-1] if t.endswith("\n") else t.split("\n")

    def key(self):
        return (
            tuple(sorted((c, hashlib.md5(b).hexdigest()) for c, b in self.objects.items())),
            tuple(sorted(self.corrupt)),
            tuple(sorted((repr(k), v) for k, v in self.pid_refs.items())),
            tuple(sorted(self.cid_refs.items())),
            tuple(sorted((repr(k), hashlib.md5(b).hexdigest()) for k, b in self.metadata.items())),
            tuple(self.residue),
        )

    def describe(self):
        return {
            "objects": sorted(c[:8] for c in self.objects),
            "corrupt": sorted(self.corrupt),
            "pid_refs": {repr(k): v[:8] for k, v in self.pid_refs.items()},
            "cid_refs": {k[:8]: v for k, v in self.cid_refs.items()},
            "metadata": {repr(k): (v[:16].decode("latin1") if len(v) < 40 else "%d bytes" % len(v))
                         for k, v in self.metadata.items()},
            "residue": self.residue,
        }


def abstract(tree, layout, pids=(), formats=()):
    """Classify every file of `tree` ({relpath: bytes|None}) under the published layout."""
    a = Abs()
    pid_at = {layout.pid_ref_path(p): p for p in pids}
    meta_at = {}
    for p in pids:
        for f in formats:
            meta_at[layout.meta_path(p, f)] = (p, f)
    for r, c in tree.items():
        if c is None:
            continue
        parts = r.split("/")
        if r == "hashstore.yaml":
            a.config = c
            continue
        top = parts[0]
        if top in ("objects", "metadata") and len(parts) > 2 and parts[1] == "tmp":
            a.residue.append(("tmp", r))
            continue
        if top == "refs" and len(parts) > 2 and parts[1] == "tmp":
            a.residue.append(("tmp", r))
            continue
        if parts[-1].endswith("_delete"):
            a.residue.append(("delete-marker", r))
            continue
        if top == "objects":
            cid = "".join(parts[1:])
            if layout.obj_path(cid) != r:
                a.residue.append(("alien", r))
            elif hashlib.new(layout.algo, c).hexdigest() != cid:
                a.corrupt[cid] = len(c)
                a.objects[cid] = c
            else:
                a.objects[cid] = c
        elif top == "refs" and len(parts) > 2 and parts[1] == "pids":
            t = c.decode("utf-8", "replace")
            a.pid_refs[pid_at.get(r, (UNKNOWN, r))] = t
        elif top == "refs" and len(parts) > 2 and parts[1] == "cids":
            cid = "".join(parts[2:])
            if layout.cid_ref_path(cid) != r:
                a.residue.append(("alien", r))
            else:
                a.cid_refs[cid] = c.decode("utf-8", "replace")
        elif top == "metadata":
            a.metadata[meta_at.get(r, (UNKNOWN, r))] = c
        else:
            a.residue.append(("alien", r))
    a.residue.sort()
    return a
