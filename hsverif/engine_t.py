"""Engine T: exhaustive exploration of thread interleavings of the real FileHashStore.

Every call of a scenario runs in a real OS thread; exactly one controlled thread runs at a time
(semaphore baton).  Threads park before every visible operation (file-system call on a shared
path, raw read/write, lock operation).  Search: stateless DFS with exact state caching; each
branch is explored by re-executing the scenario from its initial tree under a recorded prefix.
"""
import hashlib
import os
import pickle
import threading
import time

from . import common, env, gstate, ops as O
from .common import HarnessError, restore
from .specs import make_store

WATCHDOG_S = 30
MAX_STEPS = 20000
YIELD_OPS = ("sleep", "wait-timeout", "acquire-timeout", "flock-nb", "try-acquire")


def is_yield(op):
    """A thread about to sleep / poll / time out gives the processor away: fairness - it is scheduled after every other
    enabled thread, and leaving it there is no pre-emption.  Without this a polling loop would spin for ever in the
    executions that keep running the poller (Musuvathi & Qadeer, fair stateless model checking)."""
    return op is not None and len(op) > 1 and op[0] == "lock" and op[1] in YIELD_OPS



class Abort(BaseException):
    pass


class TWorker(env.BaseWorker):
    AbortExc = Abort

    def __init__(self, sched, name, program):
        super().__init__(name)
        self.s = sched
        self.program = program  # list of op descriptors
        self.sem = threading.Semaphore(0)
        self.pending = ("start",)
        self.pred = None
        self.done = False
        self.abort = False
        self.results = []
        self.hist = hashlib.blake2b(digest_size=10)
        self.trace = []  # op descriptors executed (for replay divergence checks / C09 reports)
        self.fault = None  # (site class, occurrence, errno name): one injected I/O error in this thread
        self.site_counts = {}
        self._cf = None
        self.th = threading.Thread(target=self._run, daemon=True, name="hsverif-" + name)

    def _run(self):
        env.CUR.w = self
        self.sem.acquire()
        try:
            if self.abort:
                raise Abort()
            self.pending = None
            for op in self.program:
                if callable(op):
                    try:
                        out = ("ok", op(self.s.store_for(self)))
                    except Exception as e:  # noqa: BLE001
                        out = (type(e).__name__, str(e)[:100])
                else:
                    out = O.run(self.s.store_for(self), op, self.s.ctx)
                self.results.append(out)
                self.hist.update(repr(("ret", out[0], _valkey(out[1]) if out[0] == "ok" else None)).encode())
        except Abort:
            pass
        except BaseException as e:  # noqa: BLE001 - harness bug inside a controlled thread
            if not self.abort:
                self.s.errors.append("%s: %r" % (self.name, e))
        finally:
            self.done = True
            self.pending = None
            env.CUR.w = None
            self.s.main_sem.release()

    def point(self, op, pred=None):
        if self.abort:
            return
        self.pending = op
        self.pred = pred
        self.s.main_sem.release()
        self.sem.acquire()
        if self.abort:
            raise Abort()
        self.pending = None
        self.pred = None
        self.hist.update(repr(op).encode())
        self.trace.append(op)
        self._maybe_fault(op)

    def private(self, op):
        self.hist.update(repr(op).encode())
        self._maybe_fault(op)

    def _maybe_fault(self, op):
        if self.fault is None or self.abort:
            return
        if self._cf is None:
            from . import engine_f
            self._cf = engine_f.ClassFault(self.fault)
        try:
            self._cf.check(op, self.real)
        except OSError:
            self.hist.update(b"FAULT")
            raise

    def obs(self, *x):
        self.hist.update(repr(x).encode())

    def enabled(self):
        return (not self.done) and self.pending is not None and (self.pred is None or self.pred())

    def key(self):
        return (self.name, self.done, self.pending, self.hist.hexdigest(), len(self.results))


def _valkey(v):
    if isinstance(v, bytes):
        return hashlib.blake2b(v, digest_size=8).hexdigest()
    return v


class Sched:
    def __init__(self, store, ctx, per_thread_store=None):
        self.store = store
        self.ctx = ctx
        self.workers = []
        self.main_sem = threading.Semaphore(0)
        self.errors = []
        self.per_thread_store = per_thread_store or {}

    def store_for(self, w):
        return self.per_thread_store.get(w.name, self.store)


def read_tree(root):
    t = {}
    for d, ds, fs in os.walk(root):
        for f in fs:
            p = os.path.join(d, f)
            try:
                with env.real_open(p, "rb") as g:
                    t[p[len(root) + 1:]] = g.read()
            except OSError:
                t[p[len(root) + 1:]] = b"?unreadable"
        if not ds and not fs and d != root:
            t[d[len(root) + 1:] + "/"] = None
    return t


class IncTree:
    """Directory tree kept up to date from the set of paths the hooks saw being modified."""

    def __init__(self, root):
        self.root = root
        self.files = {}
        self.dirs = set()
        self.dig = {}
        for d, ds, fs in os.walk(root):
            rel = d[len(root) + 1:]
            if rel:
                self.dirs.add(rel)
            for f in fs:
                self._load((rel + "/" if rel else "") + f)

    def _load(self, r):
        p = os.path.join(self.root, r)
        try:
            with env.IN_LAYER, env.real_open(p, "rb") as g:  # the harness's own access, not the code under test's
                c = g.read()
            self.files[r] = c
            self.dig[r] = hashlib.blake2b(c, digest_size=8).digest()
            self.dirs.discard(r)
        except IsADirectoryError:
            self.files.pop(r, None)
            self.dig.pop(r, None)
            self.dirs.add(r)
        except OSError:
            self.files.pop(r, None)
            self.dig.pop(r, None)
            self.dirs.discard(r)

    def refresh(self, dirty):
        for r in dirty:
            if r != ".":
                self._load(r)

    def digest(self):
        h = hashlib.blake2b(digest_size=12)
        for r in sorted(self.files):
            h.update(env.canon(r).encode("utf-8", "surrogateescape") + b"\0" + self.dig[r])
        for r in sorted(self.dirs):
            h.update(r.encode("utf-8", "surrogateescape") + b"/")
        return h.digest()

    def as_tree(self):
        t = dict(self.files)
        return t


def _tree_digest(tree):
    h = hashlib.blake2b(digest_size=12)
    for r in sorted(tree):
        c = tree[r]
        h.update(env.canon(r.rstrip("/")).encode("utf-8", "surrogateescape") + (b"/" if c is None else b"\0"))
        if c is not None:
            h.update(hashlib.blake2b(c, digest_size=8).digest())
    return h.digest()


def _open_files_key():
    out = []
    for f in env.STATE.files:
        if f.closed or env.is_private(f._hs_rel):
            continue
        try:
            st = os.fstat(f._hs_fd)
            content = os.pread(f._hs_fd, st.st_size, 0) if st.st_nlink == 0 else b""
            out.append((f._hs_owner, f._hs_rel, st.st_nlink == 0, hashlib.blake2b(content, digest_size=6).hexdigest(),
                        os.lseek(f._hs_fd, 0, os.SEEK_CUR)))
        except OSError:
            out.append((f._hs_owner, f._hs_rel, "closed"))
    return tuple(sorted(out))


def _attrs_key(store):
    out = []
    for k, v in sorted(vars(store).items()):
        if isinstance(v, (list, dict, set, env.SProxyList)):
            out.append((k, repr(v)))
    return tuple(out)


def resources(op):
    """(reads, writes, listed directory) of a visible operation descriptor."""
    kind = op[0]
    if kind == "start":
        return (), (), None
    if kind == "lock":
        if op[1].startswith("flock"):
            return (), (op[2],), None
        return (), ("L%s" % (op[2],),), None
    paths = tuple(x for x in op[2:] if isinstance(x, str) and not env.is_private(x.replace("/tmp#", "/x")))
    if kind == "probe":
        if op[1] in ("listdir", "scandir"):
            return paths, (), (paths[0] if paths else None)
        return paths, (), None
    if kind in ("open-r", "read"):
        return paths, (), None
    return (), paths, None


class Footprint:
    def __init__(self):
        self.r = set()
        self.w = set()
        self.d = set()

    def add(self, op):
        r, w, d = resources(op)
        n = len(self.r) + len(self.w) + len(self.d)
        self.r.update(r)
        self.w.update(w)
        if d:
            self.d.add(d)
        return len(self.r) + len(self.w) + len(self.d) != n

    def conflicts(self, op):
        if op[0] == "lock" and str(op[1]).startswith("unsynchronised-list"):
            return True  # touches state the other threads reach through their (differently named) locks
        r, w, d = resources(op)
        for x in w:
            if x in self.r or x in self.w or os.path.dirname(x) in self.d:
                return True
        for x in r:
            if x in self.w:
                return True
        if d and any(os.path.dirname(x) == d for x in self.w):
            return True
        return False

    def size(self):
        return len(self.r) + len(self.w) + len(self.d)


class Scenario:
    """init_tree: concrete tree the execution starts from; threads: {name: [ops]}."""

    def __init__(self, name, init_tree, threads, p, ctx, mode="th", split_instances=False):
        self.name = name
        self.init_tree = init_tree
        self.threads = threads
        self.p = p
        self.ctx = ctx
        self.mode = mode
        self.split_instances = split_instances


class Execution:
    def __init__(self):
        self.choices = []
        self.alts = []
        self.deadlock = None
        self.results = None
        self.store = None
        self.steps = 0
        self.step_violations = []
        self.pruned = 0


def run_execution(sc, root, prefix, visited, explore=True, bound=None, observer=None, trace_out=None,
                  cut_at_visited=False, fp=None, fp_seen=None):
    """One complete execution of the scenario under `prefix` then default choices."""
    env.reset_execution()
    restore(root, sc.init_tree)
    env.set_root(root)
    envv = {"USE_MULTIPROCESSING": "True"} if sc.mode == "mp" else {"USE_MULTIPROCESSING": "False"}
    store = make_store(root, sc.p, envv)
    for k, v in list(vars(store).items()):
        if type(v) is list and "locked" in k:
            setattr(store, k, env.SList(v))
    per = {}
    if sc.split_instances:
        # picture after fork(): every plain attribute private to the process, the _mp primitives shared
        import copy
        for name in sc.threads:
            c = copy.copy(store)
            for k, v in vars(store).items():
                if isinstance(v, (list, dict, set)) and not k.endswith("_mp"):
                    setattr(c, k, copy.deepcopy(v))
            per[name] = c
    s = Sched(store, sc.ctx, per)
    threads = sc.make_threads() if hasattr(sc, "make_threads") else sc.threads
    for name in sorted(threads):
        s.workers.append(TWorker(s, name, threads[name]))
        s.workers[-1].fault = (getattr(sc, "faults", None) or {}).get(name)
    for w in s.workers:
        w.th.start()
    ex = Execution()
    ex.store = store
    exploring = explore
    last = None
    preempt = 0
    i = 0
    inc = IncTree(root)
    env.STATE.dirty = set()
    prev_tree = dict(inc.files) if observer else None
    cut = False
    try:
        while True:
            en = [w for w in s.workers if w.enabled()]
            if not en:
                if all(w.done for w in s.workers):
                    break
                ex.deadlock = tuple((w.name, w.pending) for w in s.workers if not w.done)
                break
            # canonical order: the thread that ran last first (no pre-emption), then by name
            en.sort(key=lambda w: (is_yield(w.pending), w is not last, w.name))
            if i < len(prefix):
                w = next((x for x in en if x.name == prefix[i]), None)
                if w is None:
                    raise HarnessError("replay divergence in %s at step %d: %s not enabled (enabled: %s)" % (
                        sc.name, i, prefix[i], [x.name for x in en]))
            else:
                solo = None
                if fp is not None and exploring:
                    # persistent singleton: an operation independent of everything the other
                    # unfinished threads may ever do needs no alternative orderings
                    cands = en if bound is None else [x for x in en if x is last]
                    for x in cands:
                        if not any((not y.done) and y is not x and y.name in fp and fp[y.name].conflicts(x.pending)
                                   for y in s.workers):
                            solo = x
                            break
                if solo is not None:
                    en = [solo]
                    ex.pruned += 1
                elif exploring:
                    key = (inc.digest(), tuple(x.key() for x in s.workers),
                           tuple(sh.key() for sh in env.STATE.shims), _open_files_key(),
                           tuple(sorted((o, i_ is not None) for _, (i_, o) in env.STATE.flocks.items())),
                           _attrs_key(store), tuple(_attrs_key(c) for c in per.values()), gstate.globals_key(), round(env.STATE.vclock, 6),
                           (last.name if last is not None and last.enabled() else None, preempt) if bound is not None else None)
                    if key in visited:
                        exploring = False
                        if cut_at_visited:
                            cut = True
                            break
                    else:
                        visited.add(key)
                        for a in en[1:]:
                            cost = preempt + (1 if (last is not None and last.enabled() and not is_yield(last.pending)
                                                    and a is not last) else 0)
                            if bound is None or cost <= bound:
                                ex.alts.append(ex.choices + [a.name])
                w = en[0]
            if last is not None and w is not last and last.enabled() and not is_yield(last.pending):
                preempt += 1
            ex.choices.append(w.name)
            i += 1
            desc = w.pending
            if fp_seen is not None:
                fp_seen.setdefault(w.name, Footprint()).add(desc)
            w.sem.release()
            if not s.main_sem.acquire(timeout=WATCHDOG_S):
                raise HarnessError("watchdog: no progress for %ds in %s after %r" % (WATCHDOG_S, sc.name, ex.choices[-8:]))
            if s.errors:
                raise HarnessError("controlled thread failed: %s" % s.errors)
            last = w
            ex.steps += 1
            if trace_out is not None:
                trace_out.append((w.name, desc))
            if env.STATE.dirty:
                dirty, env.STATE.dirty = env.STATE.dirty, set()
                inc.refresh(dirty)
                if observer is not None and (exploring or i <= len(prefix)):
                    tree = dict(inc.files)
                    if getattr(observer, "wants_inc", False):
                        observer.inc = inc
                    for v in observer(prev_tree, tree, w.name, desc, dirty):
                        ex.step_violations.append((v, list(ex.choices)))
                    prev_tree = tree
            if ex.steps > MAX_STEPS:
                # fair scheduling and still no end: the unfinished threads poll for something nobody will provide
                ex.deadlock = tuple((w.name, ("livelock",) + tuple(w.pending or ())[:2]) for w in s.workers if not w.done)
                break
    finally:
        # release anything still parked (deadlock or harness error)
        for w in s.workers:
            if not w.done:
                w.abort = True
                w.sem.release()
                w.th.join(timeout=WATCHDOG_S)
        for w in s.workers:
            w.th.join(timeout=WATCHDOG_S)
    ex.results = {w.name: list(w.results) for w in s.workers}
    ex.sched = s
    ex.cut = cut
    return ex


def explore(sc, root, bound=None, observer=None, max_exec=None, time_cap=None, reduce=True):
    """All interleavings of a scenario (up to commutation of independent steps).
    With reduce=True operations that touch resources no other thread ever touches are not
    branching points; the per-thread footprints this relies on are learned from the explored
    executions themselves and the exploration is repeated until they are stable (so the final
    pass used footprints that cover every operation it saw)."""
    fp = {} if reduce else None
    passes = 0
    t0 = time.time()
    total_exec = 0
    if fp is not None:
        # seed the footprints from the executions that run each thread first (cheap); the
        # fixpoint loop below still verifies them
        for n in sorted(sc.threads):
            seen = {}
            run_execution(sc, root, [n], set(), False, None, None, None, False, None, seen)
            for m, f in seen.items():
                g = fp.setdefault(m, Footprint())
                g.r |= f.r
                g.w |= f.w
                g.d |= f.d
    env.STATE.shared_private = set()
    while True:
        passes += 1
        seen = {}
        shared_before = set(env.STATE.shared_private)
        r = _explore_once(sc, root, bound, observer, max_exec, time_cap, fp, seen, t0)
        total_exec += r["executions"]
        grew = env.STATE.shared_private != shared_before  # a temp path turned out to be shared: explore again
        if fp is not None:
            for n, f in seen.items():
                g = fp.setdefault(n, Footprint())
                before = g.size()
                g.r |= f.r
                g.w |= f.w
                g.d |= f.d
                grew = grew or g.size() != before
        if not grew or r["capped"]:
            break
    r["passes"] = passes
    r["shared_temp_paths"] = sorted(env.STATE.shared_private)
    r["executions_all_passes"] = total_exec
    r["wall"] = time.time() - t0
    return r


def _explore_once(sc, root, bound, observer, max_exec, time_cap, fp, seen, t0):
    visited = set()
    stack = [[]]
    terminals = {}
    nexec = 0
    steps = 0
    pruned = 0
    step_violations = []
    capped = None
    while stack:
        prefix = stack.pop()
        ex = run_execution(sc, root, prefix, visited, True, bound, observer, None, True, fp, seen)
        nexec += 1
        pruned += ex.pruned
        steps += ex.steps
        stack.extend(ex.alts)
        if not ex.cut:
            term = sc.terminal(ex, root)
            if term not in terminals:
                terminals[term] = list(ex.choices)
        for v, ch in ex.step_violations:
            step_violations.append((v, ch))
        if max_exec and nexec >= max_exec and stack:
            capped = "execution cap %d (%d branches unexplored)" % (max_exec, len(stack))
            break
        if time_cap and time.time() - t0 > time_cap and stack:
            capped = "time cap %ds (%d branches unexplored)" % (time_cap, len(stack))
            break
    return {"terminals": terminals, "executions": nexec, "states": len(visited), "transitions": steps,
            "step_violations": step_violations, "capped": capped, "wall": time.time() - t0,
            "independent_steps_not_branched": pruned}
