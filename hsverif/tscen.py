"""Scenario construction and the per-scenario job run by the engine-T checks (C07 C08 C09 C12 C16)."""
import os
import time
import traceback

from . import common, env, engine_t, lin, ops as O
from .common import DEFAULT_NS, Inputs, pattern, restore
from .specs import make_store

P = dict(depth=3, width=2, algo="SHA-256", ns=DEFAULT_NS)
CONTENTS = {"A": pattern(5000, 1), "B": pattern(10, 2), "E": b"", "O": b"\x07", "K": pattern(4096, 5),
            "L": pattern(3 * 4096 + 7, 6),
            # two contents whose sha256 digests start with the same hex digit: one shard directory when depth=width=1
            "S1": b"same-shard-3", "S2": b"same-shard-5"}
P11 = dict(depth=1, width=1, algo="SHA-256", ns=DEFAULT_NS)
DOCS = {"v0": b"<v0/>", "v1": b"<v1-doc/>", "v2": pattern(4096 + 9, 3)}

_CTX = None


def ctx():
    global _CTX
    if _CTX is None or _CTX[0] != os.getpid():
        inputs = Inputs(CONTENTS)
        docs = Inputs(DOCS, "docs")
        _CTX = (os.getpid(), O.Ctx(inputs, "sha256", docs))
    return _CTX[1]


INIT = {
    # name: (warm-up history, initial history)
    "empty": (),
    "p1A": (("store", "p1", "A", None),),
    "p1A,p2A": (("store", "p1", "A", None), ("store", "p2", "A", None)),
    "Aunref": (("store_nopid", "A"),),
    "p1A,p2B": (("store", "p1", "A", None), ("store", "p2", "B", None)),
    "p1N": (("tag", "p1", "N"),),
    "p1A+meta": (("store", "p1", "A", None), ("store_meta", "p1", None, "v0")),
    "meta": (("store_meta", "p1", None, "v0"),),
    "meta2": (("store_meta", "p1", None, "v0"), ("store_meta", "p1", "f2", "v0")),
    "meta3": (("store_meta", "p1", None, "v0"), ("store_meta", "p1", "f2", "v0"), ("store_meta", "p1", "f3", "v0")),
    "S2unref": (("store_nopid", "S2"),),
    "ABunref": (("store_nopid", "A"), ("store_nopid", "B")),
    "p1B": (("store", "p1", "B", None),),
    "p2S2": (("store", "p2", "S2", None),),
    "p1A+meta2": (("store", "p1", "A", None), ("store_meta", "p1", None, "v0"), ("store_meta", "p1", "f2", "v0")),
}
WARM = (("store", "p1", "A", None), ("store", "p2", "B", None), ("store", "p3", "A", None),
        ("store_meta", "p1", None, "v0"), ("store_meta", "p2", None, "v0"),
        ("delete", "p1"), ("delete", "p2"), ("delete", "p3"), ("tag", "p1", "N"), ("delete", "p1"))


def init_tree(name, pristine=False, p=None, bystander=False):
    c = ctx()
    root = os.path.join(common.scratch(), "init")
    restore(root, {})
    os.rmdir(root)
    store = make_store(root, p or P, {"USE_MULTIPROCESSING": "False"})
    if not pristine:
        for op in WARM:
            cls, _ = O.run(store, op, c)
            if cls != "ok":
                raise common.SetupFailure("warm-up %r failed: %s" % (op, cls))
    for op in tuple(INIT[name]) + ((("store", "p3", "B", None), ("store_meta", "p3", None, "v0")) if bystander else ()):
        cls, _ = O.run(store, op, c)
        if cls != "ok":
            raise common.SetupFailure("initial history %r failed: %s" % (op, cls))
    return common.snapshot(root)


def make_scenario(spec):
    """spec: dict(name, init, threads={T1:[ops],..}, mode, pristine, followups, pids, formats, split)"""
    threads = {k: [tuple(op) for op in v] for k, v in spec["threads"].items()}
    p = P11 if spec.get("p") == "1x1" else P
    sc = lin.LinScenario(spec["name"], init_tree(spec["init"], spec.get("pristine", False), p, spec.get("bystander", False)),
                         threads, p, ctx(),
                         spec.get("pids", ("p1", "p2", "p3")), spec.get("formats", ()), spec.get("mode", "th"),
                         spec.get("split", False),
                         [tuple(op) for op in spec.get("followups", ())])
    sc.faults = {k: tuple(v) for k, v in (spec.get("faults") or {}).items()}
    sc.observe_after_followups = bool(spec.get("after"))
    return sc


def fault_classes(spec, thread):
    """Fault-site classes (class, occurrence) of `thread`'s calls when the scenario runs with that thread first."""
    from . import engine_f
    env.install()
    sc = make_scenario(dict(spec, faults=None))
    root = os.path.join(common.scratch(), "store")
    trace = []
    engine_t.run_execution(sc, root, [thread], set(), explore=False, trace_out=trace)
    # private operations are not in trace_out; re-run single-threaded with the recorder for the complete list
    out, counts = [], {}
    w = None
    for t in sc.threads[thread]:
        r = engine_f.run_call(root, sc.init_tree, P11 if spec.get("p") == "1x1" else P, t, ctx())
        for op in r.sites:
            if engine_f.is_fault_site(op):
                k = engine_f.site_class(op)
                out.append((k, counts.get(k, 0)))
                counts[k] = counts.get(k, 0) + 1
        break  # first call only
    return out


class ImageCollector:
    """Observer that keeps every distinct kernel-visible tree seen after a scheduling step (a crash image of the
    whole process while several calls are in flight)."""
    wants_inc = True

    def __init__(self):
        self.images = {}
        self.inc = None

    def __call__(self, prev, tree, thread, op, dirty):
        from . import engine_f
        d = self.inc.digest()
        if d not in self.images:
            self.images[d] = engine_f.tree_of(dict(self.inc.files), set(self.inc.dirs))
        return ()


NOTFOUND = {"PidRefsDoesNotExist", "RefsFileExistsButCidObjMissing", "OrphanPidRefsFileFound",
            "PidNotFoundInCidRefsFile", "CidRefsFileNotFound", "PidRefsFileNotFound"}


def crash_oracle(sc, spec, tree, root):
    """C10 for a crash image taken while the scenario's calls were in flight: bystander p3 untouched, every involved
    pid served exact bytes or a not-found class, and delete_object + store_object makes it retrievable again."""
    from . import i9
    c = sc.ctx
    out = []
    docs, cids = i9.allowed_sets(c, sc.init_tree)
    for where, what in i9.check_tree(tree, sc.layout.algo, docs, cids):
        out.append("crash image: " + what)
    restore(root, tree)
    env.set_root(root)
    store = make_store(root, sc.p, {"USE_MULTIPROCESSING": "False"})
    if spec.get("bystander"):
        b = O.run(store, ("retrieve", "p3"), c)
        m = O.run(store, ("retrieve_meta", "p3", None), c)
        if b[0] != "ok" or b[1] != c.inputs.data["B"] or m[0] != "ok" or m[1] != c.docs.data["v0"]:
            out.append("the bystander's object or metadata differs in a crash image")
    involved = sorted({op[1] for prog in sc.threads.values() for op in prog if op[0] in ("store", "tag", "delete")})
    complete = [c.inputs.data[n] for n in c.inputs.data]
    for pid in involved:
        r = O.run(store, ("retrieve", pid), c)
        if r[0] == "ok":
            if r[1] not in complete:
                out.append("a pid is served bytes that are no complete content in a crash image")
        elif r[0] not in NOTFOUND:
            out.append("retrieve_object raises %s in a crash image" % r[0])
    for pid in involved:
        d = O.run(store, ("delete", pid), c)
        if d[0] not in ("ok", "PidRefsDoesNotExist"):
            out.append("recovery: delete_object raises %s" % d[0])
            continue
        s = O.run(store, ("store", pid, "A", None), c)
        g = O.run(store, ("retrieve", pid), c) if s[0] == "ok" else s
        if s[0] != "ok" or g[0] != "ok" or g[1] != c.inputs.data["A"]:
            out.append("recovery: store_object after delete_object does not make the pid retrievable (%s)" % (
                s[0] if s[0] != "ok" else g[0]))
    if spec.get("bystander"):
        b = O.run(store, ("retrieve", "p3"), c)
        if b[0] != "ok" or b[1] != c.inputs.data["B"]:
            out.append("recovery of the interrupted pids disturbed the bystander")
    return sorted(set(out))


def run_job(spec):
    """Explore one scenario exhaustively and judge every distinct terminal observation.
    Returns a picklable summary."""
    t0 = time.time()
    env.STATE.list_reverse = spec.get("listing") == "reverse"  # environment answer for the whole job (all its executions and
    # the sequential reference runs): directory listings come back in reverse order
    try:
        env.install()
        sc = make_scenario(spec)
        root = os.path.join(common.scratch(), "store")
        observer = None
        if spec.get("observer") == "images":
            observer = ImageCollector()
        elif spec.get("observer") == "removal":
            from .i9 import make_removal_observer
            observer = make_removal_observer(sc)
        elif spec.get("observer"):
            from .i9 import make_observer
            observer = make_observer(sc)
        if spec.get("engine") == "L":
            from . import engine_l
            r = engine_l.explore(sc, root, spec["first"], spec.get("gran", "line"), tuple(spec.get("chunk", (0, 1))),
                                 time_cap=spec.get("time_cap"), bound=spec.get("lbound", 1))
        else:
            r = engine_t.explore(sc, root, bound=spec.get("bound"), observer=observer,
                                 max_exec=spec.get("max_exec"), time_cap=spec.get("time_cap"),
                                 reduce=spec.get("reduce", True))
        image_violations = []
        n_images = 0
        if isinstance(observer, ImageCollector):
            n_images = len(observer.images)
            seen_v = set()
            for tree in observer.images.values():
                for v in crash_oracle(sc, spec, tree, root):
                    if v not in seen_v:
                        seen_v.add(v)
                        image_violations.append(v)
        cache = {}
        verdicts = []
        for term, sched in r["terminals"].items():
            if spec.get("judge") == "liveness":
                v, kind = liveness_verdict(term)
            else:
                v, kind, _ = sc.judge(term, root, cache)
            verdicts.append({"verdict": v, "kind": kind, "schedule": sched, "terminal": lin.describe_terminal(term),
                             "termkey": repr(term)})
        # determinism: a violating schedule must reproduce identically twice
        for vd in verdicts:
            if vd["verdict"] == "violation":
                for _ in range(2):
                    ex = run_schedule(sc, root, vd["schedule"])
                    if repr(sc.terminal(ex, root)) != vd["termkey"] and "DEADLOCK" not in vd["termkey"]:
                        raise common.HarnessError("schedule of %s does not replay deterministically" % spec["name"])
        for vd in verdicts:
            del vd["termkey"]
        seq = cache.get(frozenset(), {})
        return {"name": spec.get("label", spec["name"]), "spec": spec, "executions": r["executions"], "states": r["states"],
                "preemption_points": r.get("preemption_points"), "void_preemptions": r.get("void_preemptions"),
                "second_preemption_points": r.get("second_preemption_points"),
                "transitions": r["transitions"], "terminals": len(r["terminals"]), "verdicts": verdicts,
                "sequential_terminals": len(seq), "capped": r["capped"], "wall": time.time() - t0,
                "passes": r.get("passes"), "executions_all_passes": r.get("executions_all_passes"),
                "independent_steps_not_branched": r.get("independent_steps_not_branched"),
                "crash_images": n_images, "image_violations": image_violations,
                "step_violations": [(v, ch) for v, ch in r["step_violations"][:20]],
                "n_step_violations": len(r["step_violations"])}
    except common.SetupFailure as e:
        return {"name": spec.get("label", spec["name"]), "spec": spec, "setup_failure": str(e)}
    except common.HarnessError as e:
        return {"name": spec.get("label", spec["name"]), "spec": spec, "harness_error": str(e)}
    except Exception:  # noqa: BLE001
        tb = traceback.format_exc()
        if (common.REPO + "/src/") in tb:
            return {"name": spec["name"], "spec": spec, "setup_failure": "exception inside the package: " + tb[-600:]}
        return {"name": spec["name"], "spec": spec, "harness_error": tb[-1500:]}


def run_schedule(sc, root, schedule, trace_out=None):
    """Re-execute one recorded schedule of either engine."""
    if schedule and schedule[0] == "L":
        from . import engine_l
        return engine_l.run_one(sc, root, schedule[1], schedule[2], schedule[3],
                                second=tuple(schedule[4]) if len(schedule) > 4 else None)
    return engine_t.run_execution(sc, root, schedule, set(), explore=False, bound=None, trace_out=trace_out)


def line_level(spec, gran="line", shares=4, lbound=1):
    """Engine-L jobs for a two-thread scenario: each thread as the one that is pre-empted, the pre-emption points
    dealt out over `shares` jobs.  The scenario name is kept (signatures coincide with engine T's)."""
    out = []
    for first in sorted(spec["threads"]):
        for k in range(shares):
            d = dict(spec)
            d.update({"engine": "L", "gran": gran, "first": first, "chunk": [k, shares], "lbound": lbound,
                      "label": "%s [%s-level, %s of %s, share %d/%d]" % (
                          spec["name"], gran, "one pre-emption" if lbound == 1 else "two pre-emptions, the first", first, k + 1, shares)})
            d.pop("bound", None)
            out.append(d)
    return out


def liveness_verdict(term):
    """C08: only termination and 'nothing left locked' are judged."""
    if term[0] == "DEADLOCK":
        return "violation", "deadlock"
    if term[5] != ((), ()):
        return "violation", "identifier-left-locked"
    if any(o in ("RuntimeError", "HarnessBlocked") for _, o in term[6]):
        return "violation", "followup-blocked"
    return "linearizable", None


def sig_of(spec, vd):
    """Stable signature of a violating terminal: scenario + what was observed."""
    t = vd["terminal"]
    if "deadlock" in t:
        return {"scenario": spec["name"], "kind": "deadlock", "where": t["deadlock"]}
    return {"scenario": spec["name"], "kind": vd["kind"], "outcomes": t["outcomes"],
            "api": t["api"], "residue": t["residue"], "locked": t["locked"], "followups": t["followups"],
            "refs": [t["pid_refs"], t["cid_refs"], t["objects"], t["metadata"]]}
