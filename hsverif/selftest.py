"""Self-tests of the checking machinery (MANIFEST.setup_cmd).

quick : package imports from /repo; layered open() == builtin open() for every mode the package
        uses; cooperative Lock/Condition shims vs the real threading primitives on the package's
        wait-until-absent / append / remove+notify protocol (every shim interleaving explored, real
        free-running outcomes must be among them); persistent-set reduction cross-checked against the
        unreduced search; replay determinism.
thorough: + the repository's own suite with all file-system seams active; real forked processes
        with the real multiprocessing primitives (sampled conformance of C16's shim assumptions).
"""
import builtins
import io
import itertools
import os
import shutil
import random
import subprocess
import sys
import threading
import time

from . import common


def check_open_conformance():
    from . import env
    env.install()
    d = os.path.join(common.scratch(), "st-open")
    os.makedirs(d, exist_ok=True)
    env.set_root(d)
    real = env.REAL["open"]
    n = 0

    def script(opn, path):
        log = []

        def rec(x):
            log.append(x)
        with opn(path, "wb") as f:
            rec((type(f).__name__, f.mode, f.write(b"hello\nworld\n")))
        with opn(path, "rb") as f:
            rec((type(f).__name__, f.mode, f.read(), f.tell()))
        with opn(path, "w", encoding="utf8") as f:
            rec((type(f).__name__, f.mode, f.write("p1\np2\nlongpid\n")))
        with opn(path, "a", encoding="utf8") as f:
            rec((type(f).__name__, f.mode, f.write("p3\n"), f.fileno() > 2))
        with opn(path, "r", encoding="utf8") as f:
            rec((type(f).__name__, f.mode, [l for l in f]))
        with opn(path, "r+", encoding="utf8") as f:
            lines = [l for l in f.readlines() if l.strip() != "p2"]
            f.seek(0)
            f.writelines(lines)
            f.truncate()
            rec((type(f).__name__, f.mode, lines))
        with opn(path, "r", encoding="utf8") as f:
            rec(f.read())
        with opn(path, "w+b") as f:
            f.write(b"x" * 20000)
            f.seek(3)
            rec((type(f).__name__, f.mode, f.read(5), f.tell()))
        try:
            opn(os.path.join(os.path.dirname(path), "missing", "x"), "r")
        except OSError as e:
            rec(("err", type(e).__name__, e.errno))
        try:
            opn(path, "rz")
        except ValueError as e:
            rec(("err", "ValueError"))
        fd = os.open(path, os.O_RDONLY)
        with opn(fd, "rb") as f:
            rec((type(f).__name__, len(f.read())))
        with opn(path, "rb", buffering=0) as f:
            rec((type(f).__name__, len(f.read())))
        return log

    a = script(real, os.path.join(d, "real.bin"))
    env.CUR.w = env.BaseWorker("T1")
    try:
        b = script(builtins.open, os.path.join(d, "shim.bin"))
        c = script(io.open, os.path.join(d, "shim2.bin"))
    finally:
        env.CUR.w = None
    norm = lambda log: [tuple("FileIO" if x == "HFileIO" else x for x in e) if isinstance(e, tuple) else e for e in log]
    assert norm(a) == norm(b) == norm(c), "layered open() differs from builtin open():\n%r\n%r" % (a, b)
    return len(a)


# ----------------------------------------------------------------------------- shim conformance


def _protocol(Lock, Condition, make_list):
    """The package's synchronisation protocol, parameterised by the primitives."""
    lock = Lock()
    cond = Condition(lock)
    held = make_list()
    log = make_list()

    def worker(name):
        def run(_store=None):
            with cond:
                while "x" in held:
                    cond.wait()
                held.append("x")
            log.append(name + "+")
            log.append(name + "-")
            with cond:
                held.remove("x")
                cond.notify()
            return name
        return run
    return worker, log, held


def check_shims_threading(nthreads=3):
    from . import env, engine_t

    class Sc(engine_t.Scenario):
        def terminal(self, ex, root):
            if ex.deadlock is not None:
                return ("DEADLOCK",)
            return ("END", tuple(self.log), tuple(self.held))

    # exhaustive over the shims
    env.install()
    root = os.path.join(common.scratch(), "st-shim")
    from .specs import make_store
    from . import tscen
    tree = tscen.init_tree("empty")
    terms = set()
    holder = {}

    class Sc2(Sc):
        def make_threads(self):
            worker, log, held = _protocol(env.SLock, env.SCond, list)
            self.log, self.held = log, held
            return {"T%d" % i: [worker("T%d" % i)] for i in range(1, nthreads + 1)}
    sc = Sc2("shim-protocol", tree, {"T%d" % i: [] for i in range(1, nthreads + 1)}, tscen.P, tscen.ctx())
    r = engine_t.explore(sc, root, reduce=False)
    for t in r["terminals"]:
        terms.add(t)
    assert ("DEADLOCK",) not in terms, "shim protocol deadlocks"
    shim_logs = {t[1] for t in terms}
    for lg in shim_logs:
        for i in range(0, len(lg), 2):
            assert lg[i][:-1] == lg[i + 1][:-1], "critical sections interleave under the shims: %r" % (lg,)
    # free-running with the real primitives
    rng = random.Random(common.SEED)
    seen = set()
    for k in range(150):
        worker, log, held = _protocol(threading.Lock, threading.Condition, list)
        ths = [threading.Thread(target=worker("T%d" % i)) for i in range(1, nthreads + 1)]
        rng.shuffle(ths)
        for t in ths:
            t.start()
            if k % 3 == 0:
                time.sleep(rng.random() * 0.0005)
        for t in ths:
            t.join(10)
            assert not t.is_alive(), "real protocol hangs"
        assert not held
        seen.add(tuple(log))
    assert seen <= shim_logs, "real threading produced an outcome the shims cannot: %r" % (seen - shim_logs,)
    return r["executions"], len(shim_logs), len(seen)


def check_list_proxy():
    """The shim of Manager().list() against the real proxy: the same mini-programs give the same values / exception classes,
    neither has __iter__, and iterating / list() goes through __len__ and __getitem__ (round trips that can interleave)."""
    import multiprocessing
    from . import env
    progs = [
        lambda l: (l.append("a"), l.append("b"), list(l))[-1],
        lambda l: ("a" in l, "z" in l),
        lambda l: l.remove("z"),
        lambda l: (l.remove("a"), list(l), len(l))[1:],
        lambda l: [x for x in l],
        lambda l: hasattr(l, "__iter__"),
        lambda l: (l.extend(["c", "d"]), l.index("d"), l.count("c"), l.pop(), l.pop(0), list(l))[1:],
        lambda l: l[5],
        lambda l: (l.insert(0, "q"), l.reverse(), l.sort(), list(l))[-1],
        lambda l: isinstance(l, list),
        lambda l: str(l),
        lambda l: l + ["t"],
    ]

    def run(l):
        out = []
        for f in progs:
            try:
                out.append(("ok", f(l)))
            except Exception as e:  # noqa: BLE001
                out.append((type(e).__name__,))
        return out

    mgr = multiprocessing.Manager()
    try:
        real = run(mgr.list())
    finally:
        mgr.shutdown()
    shim = run(env.SProxyList())
    assert real == shim, "Manager().list() shim differs from the real proxy:\n%r\n%r" % (real, shim)
    # iteration is made of round trips
    calls = []

    class Spy(env.SProxyList):
        def _rt(self, what):
            calls.append(what)
    sp = Spy(["a", "b", "c"])
    list(sp)
    assert len(calls) >= 4, "list(proxy) must take one round trip per element (saw %d)" % len(calls)
    return len(progs), len(calls)


def check_reduction(tier="quick"):
    """Terminal observations with the persistent-set reduction == without it."""
    from . import env, engine_t, tscen
    env.install()
    root = os.path.join(common.scratch(), "st-red")
    out = []
    for spec in [
        dict(name="t1A||d1 from Aunref", init="Aunref", threads={"T1": [("tag", "p1", "A")], "T2": [("delete", "p1")]}),
        dict(name="d1||xA from p1A", init="p1A", threads={"T1": [("delete", "p1")], "T2": [("dii", "A", "badsize")]}),
        dict(name="t1A||t2A from Aunref", init="Aunref", threads={"T1": [("tag", "p1", "A")], "T2": [("tag", "p2", "A")]}),
    ] + ([] if tier == "quick" else [
        dict(name="s2A||d1 from p1A", init="p1A", threads={"T1": [("store", "p2", "A", None)], "T2": [("delete", "p1")]}),
        dict(name="d1||d1||d1 bound 2", init="p1A", bound=2,
             threads={"T1": [("delete", "p1")], "T2": [("delete", "p1")], "T3": [("delete", "p1")]}),
    ]) + [
        dict(name="M1||Da", init="meta", threads={"T1": [("store_meta", "p1", None, "v1")], "T2": [("delete_meta", "p1", None)]},
             formats=(common.DEFAULT_NS,), pids=("p1",)),
    ]:
        sc = tscen.make_scenario(spec)
        a = engine_t.explore(sc, root, reduce=True, bound=spec.get("bound"))
        b = engine_t.explore(sc, root, reduce=False, bound=spec.get("bound"))
        assert set(a["terminals"]) == set(b["terminals"]), "reduction changes the reachable observations of %s" % spec["name"]
        # determinism: replaying a recorded schedule gives the recorded observation
        for term, sched in list(a["terminals"].items())[:3]:
            ex = engine_t.run_execution(sc, root, sched, set(), explore=False)
            assert sc.terminal(ex, root) == term, "schedule does not replay deterministically"
        out.append((spec["name"], a["executions"], b["executions"], len(a["terminals"])))
    return out


def check_timeouts():
    """Waits with a deadline: under the cooperative shims a deadline may pass whenever the waiter is scheduled before the
    notification (Condition.wait -> False, Lock.acquire -> False, flock(LOCK_NB) -> BlockingIOError); time.sleep is a
    scheduling point, no real time passes."""
    import time
    from . import env
    env.install()
    env.reset_execution()
    w = env.BaseWorker("T1")
    seen = []
    w.point = lambda op, pred=None: seen.append(op[1]) if pred is None or pred() else (_ for _ in ()).throw(RuntimeError("blocked"))
    env.CUR.w = w
    try:
        c = env.SCond()
        with c:
            assert c.wait(timeout=0.5) is False
            assert c.wait_for(lambda: False, timeout=0.5) is False
        assert c.lock.owner is None and not c.waiters and not c.tokens
        lk = env.SLock()
        lk.owner = "T2"
        assert lk.acquire(timeout=1) is False and lk.owner == "T2"
        lk.owner = None
        assert lk.acquire(timeout=1) is True and lk.owner == "T1"
        lk.release()
        real = env.REAL["time.time"]
        t0, v0 = real(), time.time()
        time.sleep(5)
        assert real() - t0 < 1, "time.sleep really slept on a controlled thread"
        assert abs((time.time() - v0) - 5) < 1e-6 and abs((time.monotonic_ns() - 1000 * 10 ** 9) / 1e9 - env.STATE.vclock) < 1e-3, \
            "virtual clock of the execution did not advance by the sleep"
    finally:
        env.CUR.w = None
    assert {"wait-timeout", "acquire-timeout", "sleep"} <= set(seen), seen
    return sorted(set(seen))


def check_line_level(tier="quick"):
    """Engine L against engine T: with one pre-emption at every source line, every terminal observation must be one
    that the full interleaving search (no reduction) reaches as well - the pinned package keeps nothing in memory between
    two file-system / lock operations that another thread could disturb - and the bound-1 executions of engine T
    must all be found; recorded line-level schedules replay to the recorded observation."""
    from . import env, engine_l, engine_t, tscen
    env.install()
    root = os.path.join(common.scratch(), "st-line")
    out = []
    for spec in [
        dict(name="t1A||d1 from Aunref", init="Aunref", threads={"T1": [("tag", "p1", "A")], "T2": [("delete", "p1")]}),
    ] + ([] if tier == "quick" else [
        dict(name="d1||s2A from p1A", init="p1A", threads={"T1": [("delete", "p1")], "T2": [("store", "p2", "A", None)]}),
    ]):
        sc = tscen.make_scenario(spec)
        full = engine_t.explore(sc, root, reduce=False)
        b1 = engine_t.explore(sc, root, reduce=False, bound=1)
        got = {}
        nexec = 0
        points = 0
        for first in sorted(sc.threads):
            r = engine_l.explore(sc, root, first, "line", (0, 1))
            got.update(r["terminals"])
            nexec += r["executions"]
            points += r["preemption_points"]
        assert set(got) <= set(full["terminals"]), "line-level exploration of %s reaches an observation the full search does not" % spec["name"]
        assert set(b1["terminals"]) <= set(got), "line-level exploration of %s misses a bound-1 observation of engine T" % spec["name"]
        for term, sched in list(got.items())[:3]:
            ex = tscen.run_schedule(sc, root, sched)
            assert sc.terminal(ex, root) == term, "line-level schedule does not replay deterministically"
        out.append((spec["name"], points, nexec, len(got), len(b1["terminals"]), len(full["terminals"])))
    return out


# ----------------------------------------------------------------------------- thorough


def check_repo_suite_under_layer():
    env_ = dict(os.environ, PYTHONPATH=common.VERIF, PYTHONHASHSEED="0")
    r = subprocess.run([sys.executable, "-m", "pytest", "-q", "-p", "no:cacheprovider", "-p", "hsverif.pytest_layer",
                        "-x", "-q"], cwd=common.REPO, env=env_, capture_output=True, text=True, timeout=1800)
    tail = r.stdout.strip().splitlines()[-3:]
    assert r.returncode == 0, "repository suite fails under the interposition layer:\n" + r.stdout[-2000:]
    return tail


def check_real_multiprocessing():
    """Real forked workers with the real multiprocessing primitives contend on shared pids / cids."""
    code = r'''
import os, sys, multiprocessing, hashlib, logging
logging.disable(logging.CRITICAL)
os.environ["USE_MULTIPROCESSING"] = "True"
sys.path.insert(0, "%s/src")
from hashstore.filehashstore import FileHashStore
root = sys.argv[1]
data = root + "-in.bin"
open(data, "wb").write(b"A" * 5000)
store = FileHashStore(dict(store_path=root, store_depth=3, store_width=2, store_algorithm="SHA-256",
                           store_metadata_namespace="ns://x"))
assert store.use_multiprocessing
def work(i):
    out = []
    for k in range(6):
        pid = "p%%d" %% ((i + k) %% 3)
        for call in (lambda: store.store_object(pid, data), lambda: store.store_metadata(pid, data),
                     lambda: store.delete_object(pid)):
            try:
                call(); out.append("ok")
            except Exception as e:
                out.append(type(e).__name__)
    return out
ctx = multiprocessing.get_context("fork")
with ctx.Pool(4) as pool:
    res = pool.map(work, range(4))
allowed = {"ok", "StoreObjectForPidAlreadyInProgress", "PidRefsDoesNotExist", "HashStoreRefsAlreadyExists",
           "PidRefsAlreadyExistsError", "RefsFileExistsButCidObjMissing"}
bad = sorted({x for r in res for x in r} - allowed)
lists = [list(store.object_locked_pids_mp), list(store.object_locked_cids_mp), list(store.reference_locked_pids_mp),
         list(store.metadata_locked_docs_mp)]
print("OUT", bad, lists)
assert not bad, bad
assert not any(lists), lists
''' % common.REPO
    d = os.path.join(common.scratch(), "st-mp")
    os.makedirs(d, exist_ok=True)
    r = subprocess.run([sys.executable, "-c", code, os.path.join(d, "store")], capture_output=True, text=True, timeout=600)
    assert r.returncode == 0, "real multiprocessing run failed:\n" + r.stdout[-1500:] + r.stderr[-1500:]
    return r.stdout.strip().splitlines()[-1]


def check_escape_detector():
    """The audit hook must (a) stay silent for a complete API call through the layer and (b) report a file-system
    call that reaches the store directory past the layer (here: the primitives captured before installation, as a
    `from os import rename` in the package would)."""
    from . import engine_f, env, ops as O
    from .common import Inputs
    root = os.path.join(common.scratch(), "st-audit")
    shutil.rmtree(root, ignore_errors=True)
    os.makedirs(root)
    ins = Inputs({"A": common.pattern(5000, 1)}, "st-audit-in")
    ctx = O.Ctx(ins)
    p = {}
    env.install()
    env.STATE.escapes[:] = []
    before = env.STATE.audited
    r = engine_f.run_call(os.path.join(root, "s"), {}, p, ("store", "p", "A", None), ctx)
    assert r.outcome[0] == "ok", r.outcome
    r = engine_f.run_call(os.path.join(root, "s"), common.snapshot(os.path.join(root, "s")), p, ("delete", "p"), ctx)
    assert r.outcome[0] == "ok", r.outcome
    assert not env.STATE.escapes, env.STATE.escapes
    seen = env.STATE.audited - before
    assert seen > 10, seen
    found = []
    for fn, args in (("os.rename", ("hashstore.yaml", "x.yaml")), ("open", ("hashstore.yaml",)), ("os.listdir", ("",)),
                     ("os.mkdir", ("zz",)), ("os.remove", ("hashstore.yaml",))):
        env.STATE.escapes[:] = []
        env.CUR.w = engine_f.FWorker(os.path.join(root, "s"))
        try:
            try:
                x = env.REAL[fn](*[os.path.join(root, "s", a) for a in args])
                if hasattr(x, "close"):
                    x.close()
            except OSError:
                pass
        finally:
            env.CUR.w = None
        assert env.STATE.escapes, "escape through %s not detected" % fn
        found.append(fn)
    env.STATE.escapes[:] = []
    return seen, found


def main(tier="quick"):
    import hashstore.filehashstore
    assert hashstore.filehashstore.__file__.startswith(common.REPO), hashstore.filehashstore.__file__
    t0 = time.time()
    n = check_open_conformance()
    print("selftest: layered open() conforms to builtin open() on %d observations" % n)
    seen, found = check_escape_detector()
    print("selftest: escape detector: %d audited file-system events of two calls all came through the layer; direct use of %s reported" % (
        seen, ", ".join(found)))
    print("selftest: deadlines and sleeps are scheduling points:", ", ".join(check_timeouts()))
    ex, nl, ns = check_shims_threading()
    print("selftest: lock/condition shims: %d interleavings, %d outcomes; real threading showed %d, all among them" % (ex, nl, ns))
    print("selftest: Manager().list() proxy shim: %d mini-programs equal to the real proxy, list(proxy) = %d round trips" % check_list_proxy())
    for name, a, b, t in check_reduction(tier):
        print("selftest: reduction %-22s %5d executions (unreduced %5d), %d observations, equal sets, replays deterministic" % (
            name, a, b, t))
    for name, pts, nx, a, b, c in check_line_level(tier):
        print("selftest: line level %-22s %5d pre-emption points, %5d executions, %d observations (engine T bound 1: %d, unbounded: %d), replays deterministic" % (
            name, pts, nx, a, b, c))
    if tier == "thorough":
        print("selftest: repository suite under the layer:", check_repo_suite_under_layer())
        print("selftest: real multiprocessing:", check_real_multiprocessing())
    print("selftest ok (%.1fs)" % (time.time() - t0))
    return 0
