"""Self-tests of the checking machinery (setup_cmd).  Grows with the interposition layer."""


def main(tier="quick"):
    import hashstore.filehashstore  # noqa: F401 - the package must import from /repo/src
    from . import common
    assert hashstore.filehashstore.__file__.startswith(common.REPO), hashstore.filehashstore.__file__
    print("selftest ok")
    return 0
