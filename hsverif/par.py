"""Fork-pool map used by the product enumerators."""
import multiprocessing
import os

_F = None


def _call(x):
    r = _F(x)
    from . import env
    env.check_escapes()  # a job whose code under test reached the file system past the layer has no verdict
    return r


def pmap(f, items, workers=None, chunksize=1):
    global _F
    items = list(items)
    if not items:
        return []
    _F = f
    workers = min(workers or os.cpu_count() or 1, 16, len(items))
    if workers <= 1:
        return [_call(x) for x in items]
    ctx = multiprocessing.get_context("fork")
    with ctx.Pool(workers) as pool:
        return pool.map(_call, items, chunksize)
